#!/bin/bash
# Runs registered quick checks against one seeded change: applies the patch to /repo, runs the
# checks, and undoes it straight afterwards. usage: run_seeded.sh <patch.diff> <ID> [<ID> ...]
set -u
patch="$1"; shift
cd /verif
if [ -n "$(git -C /repo status --porcelain --untracked-files=no)" ]; then echo "refusing: /repo dirty"; exit 2; fi
git -C /repo apply "$patch" || { echo "patch does not apply"; exit 2; }
# the evidence files must keep describing runs on the unchanged tree: save and restore them
bak="$(mktemp -d)"; cp -a /verif/evidence/. "$bak"/ 2>/dev/null
for id in "$@"; do
  out=$(./check $id quick 2>&1); rc=$?
  n=$(echo "$out" | grep -c "^VIOLATION")
  first=$(echo "$out" | grep -m1 "class=" | cut -c1-260)
  echo "  $id exit=$rc violations=$n $first"
done
git -C /repo checkout -- .
cp -a "$bak"/. /verif/evidence/ 2>/dev/null; rm -rf "$bak"
