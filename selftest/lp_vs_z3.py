#!/opt/veriftools/pyvenv/bin/python3
"""Oracle self-test: the exact width LP of the harness against z3's exact optimiser, and the
real backend (minilp through Polytope::status) against both, on seeded small-integer / dyadic
constraint systems. usage: selftest/lp_vs_z3.py [n] [seed]     exit 0 = all agree"""
import json, subprocess, sys
from fractions import Fraction
import z3

n = sys.argv[1] if len(sys.argv) > 1 else "3000"
seed = sys.argv[2] if len(sys.argv) > 2 else "1"
out = subprocess.run(["/verif/sim/target/release/affsim", "selftest-lp", n, seed], capture_output=True, text=True, check=True).stdout
TAU = Fraction(1, 10**6)
bad = 0; cls = {}; band_violations = 0; total = 0
for line in out.splitlines():
    r = json.loads(line); total += 1
    dim = r["dim"]
    rows = [[Fraction(x) for x in row] for row in r["rows"]]
    trivially_empty = any(all(a == 0 for a in row[:-1]) and row[-1] < 0 for row in rows)
    assert trivially_empty == r["trivially_empty"], ("trivially_empty", r)
    cls[r["class"]] = cls.get(r["class"], 0) + 1
    if not trivially_empty:
        live = [row for row in rows if any(a != 0 for a in row[:-1])]
        o = z3.Optimize()
        xs = [z3.Real(f"x{i}") for i in range(dim)]; t = z3.Real("t")
        for row in live:
            w = sum(abs(a) for a in row[:-1])
            o.add(z3.Sum([z3.RealVal(str(a)) * x for a, x in zip(row[:-1], xs)]) + z3.RealVal(str(w)) * t <= z3.RealVal(str(row[-1])))
        o.add(t <= 1)
        h = o.maximize(t)
        assert o.check() == z3.sat
        v = o.upper(h)
        zr = Fraction(str(v.as_fraction())) if hasattr(v, 'as_fraction') else Fraction(v.as_long())
        if zr != Fraction(r["rho"]):
            bad += 1; print("MISMATCH rho", r, zr)
        rho = zr
    else:
        rho = Fraction(-1)
    # the real backend must be right outside the tolerance band
    if rho >= TAU and not (r["backend"] == "optimal" and r["backend_point_inside"]):
        band_violations += 1; print("BACKEND wrong on FAT system", r)
    if rho <= -TAU and r["backend"] != "infeasible":
        band_violations += 1; print("BACKEND wrong on EMPTY system", r)
print(f"{total} systems: exact LP vs z3 mismatches={bad}; backend outside-band disagreements={band_violations}; classes={cls}")
sys.exit(1 if bad or band_violations else 0)
