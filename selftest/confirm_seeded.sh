#!/bin/bash
# Confirms one seeded change independently, in a scratch worktree of /repo (never in /repo):
#   1. the patch applies, the repository's own suite passes with it,
#   2. the demonstration fails with it,
#   3. the demonstration passes without it.
# usage: confirm_seeded.sh <worktree> <dir with patch.diff demo.rs> [cfg]
#   cfg = "verif": build the demo with --cfg affinitree_verif (demos that inject LP faults)
# prints one line: CONFIRMED / REJECTED <reason>
set -u
wt="$1"; d="$2"; cfg="${3:-}"
export CARGO_NET_OFFLINE=true
cd "$wt" || exit 2
git checkout -q -- . ; rm -f tests/demo_seed.rs
if ! git apply --check "$d/patch.diff" 2>/dev/null; then echo "REJECTED patch does not apply"; exit 1; fi
git apply "$d/patch.diff"
suite=$(cargo test --workspace --no-fail-fast --offline 2>&1 | grep -E "^test result|FAILED|error(\[|:)" )
if echo "$suite" | grep -qE "FAILED|error"; then echo "REJECTED suite fails with the change: $(echo "$suite" | tr '\n' ' ' | cut -c1-300)"; git checkout -q -- .; exit 1; fi
npass=$(echo "$suite" | grep -oE "[0-9]+ passed" | awk '{s+=$1} END {print s}')
cp "$d/demo.rs" tests/demo_seed.rs
run_demo() {
  if [ "$cfg" = verif ]; then
    RUSTFLAGS="--cfg affinitree_verif" cargo test --offline --target-dir "$wt/target_verif" --test demo_seed 2>&1
  else
    cargo test --offline --test demo_seed 2>&1
  fi
}
with=$(run_demo | grep -E "^test result|error\[|could not compile" | tail -1)
git checkout -q -- .
without=$(run_demo | grep -E "^test result|error\[|could not compile" | tail -1)
rm -f tests/demo_seed.rs
ok=1
echo "$with" | grep -q "FAILED" || ok=0
echo "$without" | grep -q "test result: ok" || ok=0
if echo "$without" | grep -qE " 0 passed"; then ok=0; fi
if [ $ok = 1 ]; then echo "CONFIRMED suite_passed=$npass demo_with=[$with] demo_without=[$without]"; else echo "REJECTED demo_with=[$with] demo_without=[$without]"; fi
