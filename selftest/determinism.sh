#!/bin/bash
# Determinism proof for the simulators: the same VERIF_SEED must give byte-identical event logs
#  - across repeated executions in fresh processes,
#  - across worker-thread counts (1, 5, 16),
# for every simulator. Compares (a) the wrapping sum of per-run event-log digests and the
# coverage counters of whole batches and (b) full printed event logs of individual runs.
# usage: selftest/determinism.sh [runs-per-batch] [traced-runs]      exit 0 = deterministic
set -u
here="$(cd "$(dirname "$0")/.." && pwd)"
bin="$here/sim/target/release/affsim"
runs="${1:-3000}"
traced="${2:-40}"
tmp="$(mktemp -d)"
export VERIF_DIR="$tmp"          # evidence / replays of these runs go to the scratch dir
mkdir -p "$tmp/evidence" "$tmp/replays" "$tmp/sim/target"
fail=0
for seed in 20261002 7; do
 for id in C03 C04 C05 C06 C11 C12; do
  r="$runs"; [ "$id" = C11 ] && r=$((runs/100+5)); [ "$id" = C12 ] && r=$((runs*20))
  ref=""
  for th in 1 16 5 16; do
    VERIF_SEED=$seed VERIF_RUNS=$r VERIF_THREADS=$th "$bin" check $id quick >/dev/null 2>&1
    sig=$(python3 - "$tmp/evidence/$id.json" <<'PY'
import json,sys
e=json.load(open(sys.argv[1])); c=e['coverage']; d=c.get('detail',{})
keys=['evaluations','distinct_nontrivial']
out=[str(c[k]) for k in keys]+[str(e.get('violations'))]
out.append(str(c.get('event_log_digest_sum', d.get('event_digest_sum'))))
for k in ('steps','lp_calls','distinct_states_reached','walk_cells','events_logged'):
    out.append(str(d.get(k)))
out.append(str(c.get('operations_executed')))
print('|'.join(out))
PY
)
    if [ -z "$ref" ]; then ref="$sig"; fi
    if [ "$sig" != "$ref" ]; then echo "NONDETERMINISTIC batch: $id seed=$seed threads=$th: $sig != $ref"; fail=1; fi
  done
  echo "batch ok: $id seed=$seed runs=$r sig=$ref"
 done
done
for id in C03 C05 C11 C12; do
  n=$traced; [ "$id" = C11 ] && n=$((traced/8+1))
  for i in $(seq 0 $((n-1))); do
    a=$("$bin" trace $id $i 2>&1 | md5sum); b=$("$bin" trace $id $i 2>&1 | md5sum)
    if [ "$a" != "$b" ]; then echo "NONDETERMINISTIC trace: $id run $i"; fail=1; fi
  done
  echo "trace ok: $id $n runs executed twice in fresh processes, logs identical"
done
rm -rf "$tmp"
exit $fail
