#!/usr/bin/env python3
"""Sensitivity self-test: deliberately property-breaking edits of /repo (applied in place,
reverted straight afterwards with `git checkout`), each run against the quick checks that are
supposed to notice it. Not a registered check: it edits /repo temporarily.

usage: selftest/mutants.py [--only m04,m12] [--runs N] [--suite]
  --suite   additionally run the repository's own test suite on each mutant (slow) to show
            that the mutant survives it
Writes selftest/mutants_result.json.
"""
import json, os, subprocess, sys, time

REPO = "/repo"
VERIF = os.path.dirname(os.path.dirname(os.path.abspath(__file__)))

M = []
def mut(mid, props, file, old, new, note, count=1):
    M.append(dict(id=mid, props=props, file=file, old=old, new=new, note=note, count=count))

ELIM = "src/pwl/impl_infeasible_elim.rs"
COMP = "src/pwl/impl_composition.rs"
ITER = "src/pwl/iter.rs"
TREE = "src/pwl/afftree.rs"
GRAPH = "src/tree/graph.rs"

mut("m01", ["C03", "C05", "C06"], ITER,
    "                1 => 1.0,\n                0 => -1.0,\n                _ => panic!(\"label should be 0 or 1, but got {}\", &edg.label),",
    "                1 => -1.0,\n                0 => 1.0,\n                _ => panic!(\"label should be 0 or 1, but got {}\", &edg.label),",
    "PolyhedraGen::next: label factor swapped")
mut("m02", ["C03", "C05", "C06"], ITER,
    "            let diff = 1 + self.last_depth - depth;",
    "            let diff = self.last_depth - depth;",
    "PolyhedraGen::next: pops one predicate too few")
mut("m03", ["C11"], ELIM,
    "                    &poly\n                );\n                true\n            }\n            PolytopeStatus::Optimal(_solution) => true,",
    "                    &poly\n                );\n                false\n            }\n            PolytopeStatus::Optimal(_solution) => true,",
    "is_edge_feasible: Unbounded => drop the edge")
mut("m04", ["C03", "C04"], COMP,
    "if created_children == 1 && created_children + skipped_children == K {",
    "if created_children == 1 {",
    "compose: forward a single created child even if the other branch is merely absent (partial operand)")
mut("m05", ["C03", "C11"], ELIM,
    "        if infeasible_children.len() != K - 1 {\n            return None;\n        }\n",
    "",
    "forward_if_redundant: no test that the other children are infeasible")
mut("m06", ["C03"], ELIM,
    "                to_remove.push((label, parent_idx));",
    "                to_remove.push((1 - label, parent_idx));",
    "elimination: removes the sibling of the infeasible child")
mut("m08", ["C04"], TREE,
    "        for leaf_idx in self.tree.terminal_indices().collect_vec() {\n            self.apply_func_at_node(leaf_idx, aff_func);",
    "        for leaf_idx in self.tree.node_indices().collect_vec() {\n            self.apply_func_at_node(leaf_idx, aff_func);",
    "apply_func: applied to decisions as well")
mut("m09", ["C04"], COMP,
    "                true => C::update_terminal(&lhs.tree.get_root().value.aff, &terminal_aff),\n                false => C::update_decision(&lhs.tree.get_root().value.aff, &terminal_aff),",
    "                true => C::update_decision(&lhs.tree.get_root().value.aff, &terminal_aff),\n                false => C::update_decision(&lhs.tree.get_root().value.aff, &terminal_aff),",
    "compose: update_decision used for a leaf-rooted operand")
mut("m10", ["C04"], TREE,
    "        self.in_dim = keep_idx.len();\n",
    "",
    "remove_axes: in_dim not updated")
mut("m12", ["C05", "C06"], ELIM,
    "                .filter(|point| hyperplane.contains(point) && unit_hyperplane.contains(point))",
    "                .filter(|_point| true)",
    "phase_inh: parent witnesses inherited without testing the new half-space")
mut("m13", ["C11"], ELIM,
    "                if !poly.contains(&solution) {\n                    let new_solution =",
    "                if false && !poly.contains(&solution) {\n                    let new_solution =",
    "phase_two: solver point cached without containment check")
mut("m16", ["C05"], TREE,
    "            node.state = NodeState::Indeterminate;\n",
    "",
    "remove_axes: cached states not reset")
mut("m18", ["C06"], ELIM,
    "            if self.tree.contains(node) && self.tree.num_children(node) > 1 {\n                let _ = self.tree.try_remove_child(node, label);\n            }",
    "            let _ = (label, node);",
    "elimination: deferred removal dropped")
mut("m19", ["C06"], ELIM,
    "            if n_remaining == 0 {\n                self.forward_if_redundant(parent_idx);\n            }",
    "            let _ = n_remaining;",
    "elimination: forward_if_redundant never called")
mut("m22", ["C11"], ELIM,
    "                error!(\"LP solver terminated with error: {}\", err_msg);\n                counter.lps_error += 1;\n                NodeState::Indeterminate",
    "                error!(\"LP solver terminated with error: {}\", err_msg);\n                counter.lps_error += 1;\n                NodeState::Infeasible",
    "phase_two: Error => Infeasible")
mut("m23", ["C11"], ELIM,
    "                    err, &poly\n                );\n                true",
    "                    err, &poly\n                );\n                false",
    "is_edge_feasible: Error => drop the edge")
mut("m24", ["C11"], ELIM,
    "        let status = poly.status();\n        debug!(\"Solver status {status:?}\");\n",
    "        if !poly.is_feasible() {\n            return false;\n        }\n        let status = poly.status();\n        debug!(\"Solver status {status:?}\");\n",
    "is_edge_feasible: Polytope::is_feasible (panics on Error) consulted first")
mut("m25", ["C11"], ELIM,
    "                            NodeState::FeasibleWitness(vec![new_solution.to_owned()])",
    "                            NodeState::FeasibleWitness(vec![solution.to_owned()])",
    "phase_two: caches the unrepaired solver point after a successful repair")
mut("m26", ["C11"], ELIM,
    "            PolytopeStatus::Unbounded => NodeState::Feasible,",
    "            PolytopeStatus::Unbounded => NodeState::Infeasible,",
    "phase_two: Unbounded => Infeasible")
mut("m28", ["C12", "C04"], GRAPH,
    "        if self.num_children(parent) == 0 {\n            self.arena[parent].isleaf = true;\n        }\n",
    "",
    "try_remove_child: leaf flag not restored")
mut("m29", ["C12"], GRAPH,
    "        for child in &mut node.children {\n            *child = None;\n        }\n",
    "",
    "remove_all_descendants: children array not cleared")
mut("m30", ["C12", "C04"], GRAPH,
    "        self.arena[child_idx].parent = Some(grandparent_idx);\n",
    "",
    "merge_child_with_parent: child's parent link not updated")
mut("m32", ["C03", "C11"], ELIM,
    "                    .any(|point| poly.contains(point) && unit_poly.contains(point))\n                {\n                    return true;\n                }\n",
    "                    .any(|point| poly.contains(point) && unit_poly.contains(point))\n                {\n                    return true;\n                } else if wit.len() > 1 {\n                    return false;\n                }\n",
    "is_edge_feasible: an edge is dropped when none of several parent witnesses lies in it")
mut("m33", ["C05"], ELIM,
    "                    return NodeState::FeasibleWitness(vec);\n                }\n            }\n            NodeState::Feasible => {",
    "                    let _ = vec;\n                    return NodeState::FeasibleWitness(solution.clone());\n                }\n            }\n            NodeState::Feasible => {",
    "phase_one: returns the parent's (un-mirrored) points as the child's witnesses")

def sh(cmd, env=None, timeout=3600):
    e = dict(os.environ)
    if env: e.update(env)
    p = subprocess.run(cmd, shell=True, cwd=VERIF, env=e, capture_output=True, text=True, timeout=timeout)
    return p.returncode, p.stdout + p.stderr

def main():
    only = None; runs = None; suite = False
    a = sys.argv[1:]
    while a:
        x = a.pop(0)
        if x == "--only": only = set(a.pop(0).split(","))
        elif x == "--runs": runs = a.pop(0)
        elif x == "--suite": suite = True
    rc, out = sh(f"git -C {REPO} status --porcelain --untracked-files=no")
    if out.strip():
        print("refusing: /repo has uncommitted changes"); sys.exit(2)
    results = []
    import shutil, tempfile
    bak = tempfile.mkdtemp()
    shutil.copytree(os.path.join(VERIF, "evidence"), os.path.join(bak, "evidence"))
    for m in M:
        if only and m["id"] not in only: continue
        path = os.path.join(REPO, m["file"])
        src = open(path).read()
        if src.count(m["old"]) != m["count"]:
            print(f"{m['id']}: pattern occurs {src.count(m['old'])} times (expected {m['count']}) - skipped")
            results.append(dict(id=m["id"], note=m["note"], error="pattern not found")); continue
        open(path, "w").write(src.replace(m["old"], m["new"]))
        entry = dict(id=m["id"], note=m["note"], file=m["file"], checks={})
        try:
            for prop in m["props"]:
                env = {}
                if runs: env["VERIF_RUNS"] = runs
                elif prop == "C11": env["VERIF_RUNS"] = "120"
                elif prop == "C12": env["VERIF_RUNS"] = "200000"
                else: env["VERIF_RUNS"] = "30000"
                t = time.time()
                rc, out = sh(f"./check {prop} quick", env)
                viol = [l for l in out.splitlines() if l.startswith("VIOLATION")]
                classes = [l.strip() for l in out.splitlines() if l.strip().startswith("class=")]
                entry["checks"][prop] = dict(exit=rc, caught=(rc == 1 and bool(viol)), n=len(viol),
                                             first=(classes[0][:220] if classes else ""), wall=round(time.time() - t, 1))
                print(f"{m['id']} [{m['note']}] {prop}: exit={rc} violations={len(viol)} {classes[0][:160] if classes else ''}", flush=True)
            if suite:
                rc, out = sh(f"cd {REPO} && CARGO_NET_OFFLINE=true cargo test --workspace --no-fail-fast --offline 2>&1 | grep -E '^test result|FAILED|panicked' | head -20", timeout=3000)
                failed = ("FAILED" in out) or ("failed;" in out and " 0 failed" not in out.replace("; 0 failed", " 0 failed"))
                entry["suite_survives"] = not failed
                entry["suite_tail"] = out[-600:]
                print(f"{m['id']} suite survives: {not failed}", flush=True)
        finally:
            sh(f"git -C {REPO} checkout -- .")
        results.append(entry)
    # the evidence files must keep describing runs on the unchanged tree
    shutil.rmtree(os.path.join(VERIF, "evidence")); shutil.copytree(os.path.join(bak, "evidence"), os.path.join(VERIF, "evidence")); shutil.rmtree(bak)
    json.dump(results, open(os.path.join(VERIF, "selftest", "mutants_result.json"), "w"), indent=1)
    missed = [r["id"] for r in results if "checks" in r and not any(c["caught"] for c in r["checks"].values())]
    print("missed by every listed check:", missed)

if __name__ == "__main__":
    main()
