#!/bin/bash
# Regression over all seeded changes in /verif/seeded: applies each to /repo (patch_head.diff if
# present, else patch.diff), runs the quick check of the property it was written for (optionally
# with reduced budgets), undoes it, and records caught / missed / does-not-apply.
# usage: selftest/regress_seeded.sh [history-runs] [c11-scenarios]   -> seeded/regression.tsv
set -u
cd /verif
hr="${1:-}"; cs="${2:-}"
out=seeded/regression.tsv; : > $out
if [ -n "$(git -C /repo status --porcelain --untracked-files=no)" ]; then echo "refusing: /repo dirty"; exit 2; fi
bak="$(mktemp -d)"; cp -a evidence/. "$bak"/
for d in /verif/seeded/*/; do
  id=$(basename $d); prop=$(python3 -c "import json;print(json.load(open('$d/meta.json'))['property'])")
  p=$d/patch.diff; [ -f $d/patch_head.diff ] && p=$d/patch_head.diff
  if ! git -C /repo apply --check $p 2>/dev/null; then echo -e "$id\t$prop\tDOES_NOT_APPLY" | tee -a $out; continue; fi
  git -C /repo apply $p
  runs=""; [ "$prop" = C11 ] && runs="$cs" || { [ "$prop" = C12 ] || runs="$hr"; }
  res=$(env ${runs:+VERIF_RUNS=$runs} ./check $prop quick 2>&1); rc=$?
  n=$(echo "$res" | grep -c "^VIOLATION")
  cls=$(echo "$res" | grep -m1 "class=" | sed 's/detail=.*//' | tr -s ' ')
  echo -e "$id\t$prop\texit=$rc\tviolations=$n\t$cls" | tee -a $out
  git -C /repo checkout -- .
done
cp -a "$bak"/. evidence/; rm -rf "$bak"
