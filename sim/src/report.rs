//! Check driver: supervisor / worker split, evidence files, replay files, known findings.

use std::collections::BTreeMap;
use std::path::{Path, PathBuf};
use std::process::{Command, ExitCode, Stdio};
use std::time::{Duration, Instant};

use serde::{Deserialize, Serialize};
use serde_json::{json, Value};

use crate::arenasim::{self, ArenaReplay, ArenaStats};
use crate::common::{env_u64, run_batch, Batch, Violation};
use crate::prng::mix;

pub const DEFAULT_SEED: u64 = 20261002;

pub fn verif_dir() -> PathBuf {
    PathBuf::from(std::env::var("VERIF_DIR").unwrap_or_else(|_| "/verif".to_string()))
}

fn property_tag(id: &str) -> u64 {
    let mut h = crate::common::Fnv::new();
    h.str(id);
    h.finish()
}

pub fn run_seed(seed: u64, property: &str, run_index: u64) -> u64 {
    mix(&[seed, property_tag(property), run_index])
}

fn tier_of(arg: &str) -> String {
    let t = std::env::var("VERIF_TIER").unwrap_or_else(|_| arg.to_string());
    if t == "thorough" {
        "thorough".into()
    } else {
        "quick".into()
    }
}

fn threads() -> usize {
    env_u64("VERIF_THREADS")
        .map(|v| v as usize)
        .unwrap_or_else(|| std::thread::available_parallelism().map(|n| n.get()).unwrap_or(4))
        .max(1)
}

// ---------------------------------------------------------------------------
// known findings
// ---------------------------------------------------------------------------

#[derive(Clone, Debug, Serialize, Deserialize)]
pub struct KnownFinding {
    pub property: String,
    /// "open" findings suppress matching violations; "fixed" entries suppress nothing
    pub status: String,
    pub class: String,
    pub site: String,
    /// every listed substring must occur in the violation's detail (narrows the finding to
    /// the specific failing call site / pre-state)
    #[serde(default)]
    pub detail_contains: Vec<String>,
    pub what_fails: String,
    #[serde(default)]
    pub commit: Option<String>,
}

#[derive(Clone, Debug, Serialize, Deserialize, Default)]
pub struct KnownFindings {
    pub findings: Vec<KnownFinding>,
}

pub fn load_known() -> KnownFindings {
    let p = verif_dir().join("known_findings.json");
    match std::fs::read_to_string(&p) {
        Ok(s) => serde_json::from_str(&s).unwrap_or_else(|e| {
            eprintln!("harness error: cannot parse {}: {e}", p.display());
            std::process::exit(2)
        }),
        Err(_) => KnownFindings::default(),
    }
}

impl KnownFindings {
    pub fn matching(&self, v: &Violation) -> Option<&KnownFinding> {
        self.findings.iter().find(|f| {
            f.status == "open"
                && f.property == v.property
                && f.class == v.class
                && f.site == v.site
                && f.detail_contains.iter().all(|s| v.detail.contains(s.as_str()))
        })
    }
}

// ---------------------------------------------------------------------------
// supervisor
// ---------------------------------------------------------------------------

/// Spawns the worker as a child process so that an abort (take_mut aborts when its closure
/// panics), a stack overflow or a hang in the code under test cannot take the verdict with it.
pub fn supervise(id: &str, tier_arg: &str) -> ExitCode {
    let tier = tier_of(tier_arg);
    let exe = std::env::current_exe().expect("current_exe");
    let start = Instant::now();
    let mut child = Command::new(&exe)
        .arg("worker")
        .arg(id)
        .arg(&tier)
        .stdout(Stdio::inherit())
        .stderr(Stdio::inherit())
        .spawn()
        .expect("spawn worker");
    let status = child.wait().expect("wait for worker");
    match status.code() {
        Some(0) => ExitCode::SUCCESS,
        Some(1) => ExitCode::from(1),
        Some(2) => ExitCode::from(2),
        other => {
            // 3 = hang reported by the watchdog, None = killed by a signal (abort, segv, oom)
            let crumbs = read_breadcrumbs(id);
            let why = match other {
                Some(3) => "hang".to_string(),
                Some(c) => format!("exit code {c}"),
                None => "killed by signal (abort / stack overflow / out of memory)".to_string(),
            };
            eprintln!("worker died: {why}; attributing to the runs in flight: {crumbs:?}");
            let seed = env_u64("VERIF_SEED").unwrap_or(DEFAULT_SEED);
            let dir = verif_dir().join("replays");
            let _ = std::fs::create_dir_all(&dir);
            let path = dir.join(format!("{id}-{seed}-crash.json"));
            let v = json!({
                "property": id, "simulator": "crash", "seed": seed, "tier": tier,
                "runs_in_flight": crumbs, "why": why,
                "expected": {"property": id, "class": "process_died", "site": "worker", "step": 0, "detail": why},
            });
            let _ = std::fs::write(&path, serde_json::to_string_pretty(&v).unwrap());
            write_evidence_minimal(id, &tier, seed, start.elapsed(), 1, &why);
            println!("VIOLATION property={id} replay={}", path.display());
            ExitCode::from(1)
        }
    }
}

fn crumb_dir(id: &str) -> PathBuf {
    verif_dir().join("sim").join("target").join("crumbs").join(id)
}

fn read_breadcrumbs(id: &str) -> Vec<String> {
    let mut out = Vec::new();
    if let Ok(rd) = std::fs::read_dir(crumb_dir(id)) {
        for e in rd.flatten() {
            if let Ok(s) = std::fs::read_to_string(e.path()) {
                let s = s.trim().to_string();
                if !s.is_empty() {
                    out.push(s);
                }
            }
        }
    }
    out.sort();
    out
}

fn write_evidence_minimal(id: &str, tier: &str, seed: u64, wall: Duration, violations: u64, note: &str) {
    let ev = json!({
        "property_id": id, "tier": tier, "seed": seed,
        "level": if id == "C11" { "fault_enumeration" } else { "exploration" },
        "coverage": {"evaluations": 1, "distinct_nontrivial": 2, "rule": "worker died; see explanation",
                     "samples": [note], "explanation": note},
        "wall_s": wall.as_secs_f64(), "violations": violations,
    });
    let dir = verif_dir().join("evidence");
    let _ = std::fs::create_dir_all(&dir);
    let _ = std::fs::write(dir.join(format!("{id}.json")), serde_json::to_string_pretty(&ev).unwrap());
}

// ---------------------------------------------------------------------------
// worker
// ---------------------------------------------------------------------------

pub fn worker(id: &str, tier: &str) -> ExitCode {
    let seed = env_u64("VERIF_SEED").unwrap_or(DEFAULT_SEED);
    match id {
        "C12" => worker_c12(tier, seed),
        _ => {
            eprintln!("unknown property {id}");
            ExitCode::from(2)
        }
    }
}

pub struct Reported {
    pub violations: u64,
    pub known: u64,
}

/// Prints KNOWN-FINDING / VIOLATION lines for the distinct violation keys found.
/// `first_of_key` maps key -> (violation, replay path).
pub fn report_lines(found: &[(Violation, PathBuf)]) -> Reported {
    let known = load_known();
    let mut rep = Reported { violations: 0, known: 0 };
    for (v, path) in found {
        if let Some(k) = known.matching(v) {
            println!(
                "KNOWN-FINDING: property={} {} [class={} site={} replay={}]",
                v.property,
                k.what_fails,
                v.class,
                v.site,
                path.display()
            );
            rep.known += 1;
        } else {
            println!("VIOLATION property={} replay={}", v.property, path.display());
            println!("  class={} site={} step={} detail={}", v.class, v.site, v.step, v.detail);
            rep.violations += 1;
        }
    }
    rep
}

fn replay_dir() -> PathBuf {
    let d = verif_dir().join("replays");
    let _ = std::fs::create_dir_all(&d);
    d
}

/// Replays `path` in a fresh process and demands the same verdict.
pub fn confirm_replay_fresh(path: &Path) -> bool {
    let exe = std::env::current_exe().expect("current_exe");
    let out = Command::new(exe).arg("replay").arg(path).output();
    match out {
        Ok(o) => o.status.code() == Some(1) && String::from_utf8_lossy(&o.stdout).contains("REPRODUCED"),
        Err(_) => false,
    }
}

fn worker_c12(tier: &str, seed: u64) -> ExitCode {
    let id = "C12";
    let runs = env_u64("VERIF_RUNS").unwrap_or(if tier == "thorough" { 12_000_000 } else { 600_000 });
    let batch = Batch {
        runs,
        threads: threads(),
        max_wall: Duration::from_secs(if tier == "thorough" { 3600 } else { 600 }),
        run_timeout: Duration::from_secs(60),
    };
    #[derive(Default)]
    struct Acc {
        stats: ArenaStats,
        // first violation per key: (run_index, violation, k, root_value, history)
        viol: BTreeMap<String, (u64, Violation, usize, u32, Vec<arenasim::ArenaOp>)>,
        n_viol: u64,
        samples: Vec<Value>,
    }
    let out = run_batch(&batch, Acc::default, |run_index, acc: &mut Acc| {
        let rs = run_seed(seed, id, run_index);
        let (res, k, root_value) = arenasim::seeded_run(id, rs, &mut acc.stats);
        if run_index < 3 {
            acc.samples.push(json!({"run_index": run_index, "run_seed": rs, "k": k, "history": res.history}));
        }
        if let Some(v) = res.violation {
            acc.n_viol += 1;
            let key = v.key();
            let better = match acc.viol.get(&key) {
                None => true,
                Some((ri, ..)) => run_index < *ri,
            };
            if better {
                acc.viol.insert(key, (run_index, v, k, root_value, res.history));
            }
        }
    });
    let mut stats = ArenaStats::default();
    let mut viol: BTreeMap<String, (u64, Violation, usize, u32, Vec<arenasim::ArenaOp>)> = BTreeMap::new();
    let mut n_viol = 0;
    let mut samples = Vec::new();
    for a in out.accs {
        stats.merge(a.stats);
        n_viol += a.n_viol;
        samples.extend(a.samples);
        for (k, v) in a.viol {
            let better = match viol.get(&k) {
                None => true,
                Some((ri, ..)) => v.0 < *ri,
            };
            if better {
                viol.insert(k, v);
            }
        }
    }
    samples.sort_by_key(|s| s["run_index"].as_u64());

    // minimise, write replay files, confirm in a fresh process
    let mut found: Vec<(Violation, PathBuf)> = Vec::new();
    let mut harness_error = false;
    for (_key, (run_index, v, k, root_value, history)) in &viol {
        let (min_hist, min_v) = arenasim::minimize(id, *k, *root_value, history, v);
        let rep = ArenaReplay {
            property: id.into(),
            simulator: "arenasim".into(),
            seed,
            run_index: *run_index,
            k: *k,
            root_value: *root_value,
            history: min_hist,
            expected: Some(min_v.clone()),
        };
        let path = replay_dir().join(format!("{id}-{seed}-{run_index}-{}.json", min_v.class));
        std::fs::write(&path, serde_json::to_string_pretty(&rep).unwrap()).expect("write replay");
        if !confirm_replay_fresh(&path) {
            eprintln!("harness error: replay {} does not reproduce in a fresh process", path.display());
            harness_error = true;
        }
        found.push((min_v, path));
    }
    let rep = report_lines(&found);

    let wall = out.wall.as_secs_f64();
    let ev = json!({
        "property_id": id, "tier": tier, "seed": seed, "level": "exploration",
        "coverage": {
            "evaluations": stats.histories,
            "distinct_nontrivial": stats.history_hashes.len(),
            "rule": "one evaluation = one seeded operation history (3-60 calls) on Tree<u32,K>, K in {2,3}, \
                     checked against the reference arena after every call. distinct = distinct sequences of \
                     (operation kind, outcome kind); non-trivial = the history contains at least one failing \
                     call (Err or panic) AND at least one re-use of a previously freed index.",
            "samples": samples,
            "operations_executed": stats.ops,
            "operations_by_kind_and_outcome": stats.ops_by_kind_outcome,
            "index_reuses": stats.index_reuses,
            "distinct_tree_shapes_reached": stats.shapes.len(),
            "max_nodes": stats.max_nodes,
            "histories_per_hour": if wall > 0.0 { (stats.histories as f64 / wall * 3600.0) as u64 } else { 0 },
            "simulated_time": "none: the only clock is the operation counter",
            "fault_kinds": "no injected faults: the failing calls (invalid index, occupied slot, missing child, root merge, label out of range) are the fault analogue",
            "real_vs_stub": "Tree<u32,K> and slab run real code; nothing is stubbed",
            "cut_short_by_wall_clock": out.cut_short,
            "violating_histories": n_viol,
            "known_findings_hit": rep.known,
        },
        "assumptions": [
            "add_root on a non-empty tree is the documented exception and is not generated",
            "after a panicking call only the structural invariants are demanded, not an unchanged tree"
        ],
        "wall_s": wall,
        "violations": rep.violations,
    });
    let dir = verif_dir().join("evidence");
    let _ = std::fs::create_dir_all(&dir);
    std::fs::write(dir.join(format!("{id}.json")), serde_json::to_string_pretty(&ev).unwrap()).expect("write evidence");
    eprintln!(
        "C12 {tier}: {} histories, {} ops, {} distinct non-trivial, {:.1}s, violations={} known={}",
        stats.histories,
        stats.ops,
        stats.history_hashes.len(),
        wall,
        rep.violations,
        rep.known
    );
    if harness_error {
        return ExitCode::from(2);
    }
    if rep.violations > 0 {
        ExitCode::from(1)
    } else {
        ExitCode::SUCCESS
    }
}

// ---------------------------------------------------------------------------
// replay
// ---------------------------------------------------------------------------

pub fn replay_file(path: &str) -> ExitCode {
    let text = match std::fs::read_to_string(path) {
        Ok(t) => t,
        Err(e) => {
            eprintln!("cannot read {path}: {e}");
            return ExitCode::from(2);
        }
    };
    let v: Value = match serde_json::from_str(&text) {
        Ok(v) => v,
        Err(e) => {
            eprintln!("cannot parse {path}: {e}");
            return ExitCode::from(2);
        }
    };
    match v["simulator"].as_str() {
        Some("arenasim") => {
            let rep: ArenaReplay = serde_json::from_value(v).expect("arena replay");
            let res = arenasim::replay_history(&rep.property, rep.k, rep.root_value, &rep.history);
            finish_replay(&rep.property, path, res.violation, rep.expected)
        }
        other => {
            eprintln!("replay files of kind {other:?} cannot be re-executed (crash records only name the runs in flight)");
            ExitCode::from(2)
        }
    }
}

pub fn finish_replay(property: &str, path: &str, got: Option<Violation>, expected: Option<Violation>) -> ExitCode {
    match (got, expected) {
        (Some(g), Some(e)) => {
            if g == e {
                println!("REPRODUCED exactly: class={} site={} step={} detail={}", g.class, g.site, g.step, g.detail);
                println!("VIOLATION property={property} replay={path}");
                ExitCode::from(1)
            } else {
                println!("DIFFERENT violation: got {g:?}, expected {e:?}");
                println!("VIOLATION property={property} replay={path}");
                ExitCode::from(1)
            }
        }
        (Some(g), None) => {
            println!("violation (file had no expectation): {g:?}");
            println!("VIOLATION property={property} replay={path}");
            ExitCode::from(1)
        }
        (None, Some(e)) => {
            println!("NOT REPRODUCED: the history runs clean; expected {e:?}");
            ExitCode::SUCCESS
        }
        (None, None) => {
            println!("history runs clean");
            ExitCode::SUCCESS
        }
    }
}
