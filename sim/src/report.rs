//! Check driver: supervisor / worker split, evidence files, replay files, known findings.

use std::collections::BTreeMap;
use std::path::{Path, PathBuf};
use std::process::{Command, ExitCode, Stdio};
use std::time::{Duration, Instant};

use serde::{Deserialize, Serialize};
use serde_json::{json, Value};

use crate::arenasim::{self, ArenaReplay, ArenaStats};
use crate::pwlsim::{self, PwlReplay, PwlStats, Scenario};
use crate::common::{env_u64, run_batch, Batch, Violation};
use crate::prng::mix;

pub const DEFAULT_SEED: u64 = 20261002;

pub fn verif_dir() -> PathBuf {
    PathBuf::from(std::env::var("VERIF_DIR").unwrap_or_else(|_| "/verif".to_string()))
}

fn property_tag(id: &str) -> u64 {
    let mut h = crate::common::Fnv::new();
    h.str(id);
    h.finish()
}

pub fn run_seed(seed: u64, property: &str, run_index: u64) -> u64 {
    mix(&[seed, property_tag(property), run_index])
}

fn tier_of(arg: &str) -> String {
    let t = std::env::var("VERIF_TIER").unwrap_or_else(|_| arg.to_string());
    if t == "thorough" {
        "thorough".into()
    } else {
        "quick".into()
    }
}

fn threads() -> usize {
    env_u64("VERIF_THREADS")
        .map(|v| v as usize)
        .unwrap_or_else(|| std::thread::available_parallelism().map(|n| n.get()).unwrap_or(4))
        .max(1)
}

// ---------------------------------------------------------------------------
// known findings
// ---------------------------------------------------------------------------

#[derive(Clone, Debug, Serialize, Deserialize)]
pub struct KnownFinding {
    pub property: String,
    /// "open" findings suppress matching violations; "fixed" entries suppress nothing
    pub status: String,
    pub class: String,
    pub site: String,
    /// every listed substring must occur in the violation's detail (narrows the finding to
    /// the specific failing call site / pre-state)
    #[serde(default)]
    pub detail_contains: Vec<String>,
    pub what_fails: String,
    #[serde(default)]
    pub commit: Option<String>,
    /// open findings: a committed replay file (relative to /verif) that the property's check
    /// re-executes on every run, so that the finding is shown to still exist (KNOWN-FINDING line)
    #[serde(default)]
    pub replay: Option<String>,
}

#[derive(Clone, Debug, Serialize, Deserialize, Default)]
pub struct KnownFindings {
    pub findings: Vec<KnownFinding>,
    /// replay files of repaired defects: re-executed by every run of the property's check; a
    /// violation there means the defect is back
    #[serde(default)]
    pub regression_replays: Vec<RegressionReplay>,
}

#[derive(Clone, Debug, Serialize, Deserialize, Default)]
pub struct RegressionReplay {
    pub property: String,
    pub replay: String,
    #[serde(default)]
    pub fixed_by: String,
}

pub fn load_known() -> KnownFindings {
    let p = verif_dir().join("known_findings.json");
    match std::fs::read_to_string(&p) {
        Ok(s) => serde_json::from_str(&s).unwrap_or_else(|e| {
            eprintln!("harness error: cannot parse {}: {e}", p.display());
            std::process::exit(2)
        }),
        Err(_) => KnownFindings::default(),
    }
}

impl KnownFindings {
    pub fn matching(&self, v: &Violation) -> Option<&KnownFinding> {
        self.findings.iter().find(|f| {
            f.status == "open"
                && f.property == v.property
                && f.class == v.class
                && (f.site == "*" || f.site == v.site)
                && f.detail_contains.iter().all(|s| v.detail.contains(s.as_str()))
        })
    }
}

// ---------------------------------------------------------------------------
// supervisor
// ---------------------------------------------------------------------------

/// Spawns the worker as a child process so that an abort (take_mut aborts when its closure
/// panics), a stack overflow or a hang in the code under test cannot take the verdict with it.
pub fn supervise(id: &str, tier_arg: &str) -> ExitCode {
    let tier = tier_of(tier_arg);
    let exe = std::env::current_exe().expect("current_exe");
    let start = Instant::now();
    let mut child = Command::new(&exe)
        .arg("worker")
        .arg(id)
        .arg(&tier)
        .stdout(Stdio::inherit())
        .stderr(Stdio::inherit())
        .spawn()
        .expect("spawn worker");
    let status = child.wait().expect("wait for worker");
    match status.code() {
        Some(0) => ExitCode::SUCCESS,
        Some(1) => ExitCode::from(1),
        Some(2) => ExitCode::from(2),
        other => {
            // 3 = hang reported by the watchdog, None = killed by a signal (abort, segv, oom)
            let crumbs = read_breadcrumbs(id);
            let why = match other {
                Some(3) => "hang".to_string(),
                Some(c) => format!("exit code {c}"),
                None => "killed by signal (abort / stack overflow / out of memory)".to_string(),
            };
            eprintln!("worker died: {why}; re-running the runs in flight one by one: {crumbs:?}");
            let seed = env_u64("VERIF_SEED").unwrap_or(DEFAULT_SEED);
            let dir = verif_dir().join("replays");
            let _ = std::fs::create_dir_all(&dir);
            let mut reported = 0;
            for c in &crumbs {
                let Some(idx) = c.split("run_index=").nth(1).and_then(|x| x.trim().parse::<u64>().ok()) else { continue };
                let path = dir.join(format!("{id}-{seed}-{idx}-process_died.json"));
                let _ = std::fs::remove_file(&path);
                let mut ch = Command::new(&exe)
                    .arg("runone")
                    .arg(id)
                    .arg(idx.to_string())
                    .arg(&path)
                    .arg(&tier)
                    .stdout(Stdio::null())
                    .stderr(Stdio::null())
                    .spawn()
                    .expect("spawn runone");
                let t0 = Instant::now();
                let died = loop {
                    match ch.try_wait() {
                        Ok(Some(st)) => break !matches!(st.code(), Some(0) | Some(1)),
                        Ok(None) => {
                            if t0.elapsed() > Duration::from_secs(1800) {
                                let _ = ch.kill();
                                let _ = ch.wait();
                                break true;
                            }
                            std::thread::sleep(Duration::from_millis(20));
                        }
                        Err(_) => break true,
                    }
                };
                if died && path.exists() {
                    println!("VIOLATION property={id} replay={}", path.display());
                    println!("  class=process_died detail=run {idx} kills the process ({why}); the file holds the literal history up to the fatal step");
                    reported += 1;
                } else {
                    let _ = std::fs::remove_file(&path);
                }
            }
            if reported == 0 {
                let path = dir.join(format!("{id}-{seed}-crash.json"));
                let v = json!({
                    "property": id, "simulator": "crash", "seed": seed, "tier": tier,
                    "runs_in_flight": crumbs, "why": why,
                    "expected": {"property": id, "class": "process_died", "site": "worker", "step": 0, "detail": why},
                });
                let _ = std::fs::write(&path, serde_json::to_string_pretty(&v).unwrap());
                println!("VIOLATION property={id} replay={}", path.display());
            }
            write_evidence_minimal(id, &tier, seed, start.elapsed(), 1, &why);
            ExitCode::from(1)
        }
    }
}

/// Re-executes one seeded run with step-level breadcrumbs (used after a worker death).
pub fn runone(id: &str, run_index: u64, crumb: &str, tier: &str) -> ExitCode {
    let seed = env_u64("VERIF_SEED").unwrap_or(DEFAULT_SEED);
    let rs = run_seed(seed, id, run_index);
    crate::common::set_step_crumb(Some(PathBuf::from(crumb)));
    match id {
        "C03" | "C04" | "C05" | "C06" => {
            let _ = pwlsim::seeded_history_run(id, rs, tier == "thorough" && run_index % 2 == 1);
        }
        "C11" => {
            for chunk in 0..pwlsim::CHUNKS {
                let _ = pwlsim::seeded_fault_scenario(rs, tier == "thorough", chunk);
            }
        }
        _ => {}
    }
    ExitCode::SUCCESS
}

fn crumb_dir(id: &str) -> PathBuf {
    verif_dir().join("sim").join("target").join("crumbs").join(id)
}

fn read_breadcrumbs(id: &str) -> Vec<String> {
    let mut out = Vec::new();
    if let Ok(rd) = std::fs::read_dir(crumb_dir(id)) {
        for e in rd.flatten() {
            if let Ok(s) = std::fs::read_to_string(e.path()) {
                let s = s.trim().to_string();
                if !s.is_empty() {
                    out.push(s);
                }
            }
        }
    }
    out.sort();
    out
}

fn write_evidence_minimal(id: &str, tier: &str, seed: u64, wall: Duration, violations: u64, note: &str) {
    let ev = json!({
        "property_id": id, "tier": tier, "seed": seed,
        "level": if id == "C11" { "fault_enumeration" } else { "exploration" },
        "coverage": {"evaluations": 1, "distinct_nontrivial": 2, "rule": "worker died; see explanation",
                     "samples": [note], "explanation": note},
        "wall_s": wall.as_secs_f64(), "violations": violations,
    });
    let dir = verif_dir().join("evidence");
    let _ = std::fs::create_dir_all(&dir);
    let _ = std::fs::write(dir.join(format!("{id}.json")), serde_json::to_string_pretty(&ev).unwrap());
}

// ---------------------------------------------------------------------------
// worker
// ---------------------------------------------------------------------------

pub fn worker(id: &str, tier: &str) -> ExitCode {
    let seed = env_u64("VERIF_SEED").unwrap_or(DEFAULT_SEED);
    match id {
        "C12" => worker_c12(tier, seed),
        "C03" | "C04" | "C05" | "C06" => worker_history(id, tier, seed),
        "C11" => worker_c11(tier, seed),
        _ => {
            eprintln!("unknown property {id}");
            ExitCode::from(2)
        }
    }
}

pub struct Reported {
    pub violations: u64,
    pub known: u64,
}

/// Prints KNOWN-FINDING / VIOLATION lines for the distinct violation keys found.
/// `first_of_key` maps key -> (violation, replay path).
pub fn report_lines(found: &[(Violation, PathBuf)]) -> Reported {
    let known = load_known();
    let mut rep = Reported { violations: 0, known: 0 };
    for (v, path) in found {
        if let Some(k) = known.matching(v) {
            println!(
                "KNOWN-FINDING: property={} {} [class={} site={} replay={}]",
                v.property,
                k.what_fails,
                v.class,
                v.site,
                path.display()
            );
            rep.known += 1;
        } else {
            println!("VIOLATION property={} replay={}", v.property, path.display());
            println!("  class={} site={} step={} detail={}", v.class, v.site, v.step, v.detail);
            rep.violations += 1;
        }
    }
    rep
}

fn replay_dir() -> PathBuf {
    let d = verif_dir().join("replays");
    let _ = std::fs::create_dir_all(&d);
    d
}

/// Replays `path` in a fresh process and demands the same verdict.
pub fn confirm_replay_fresh(path: &Path) -> bool {
    let exe = std::env::current_exe().expect("current_exe");
    let out = Command::new(exe).arg("replay").arg(path).output();
    match out {
        Ok(o) => o.status.code() == Some(1) && String::from_utf8_lossy(&o.stdout).contains("REPRODUCED"),
        Err(_) => false,
    }
}

fn worker_c12(tier: &str, seed: u64) -> ExitCode {
    let id = "C12";
    let runs = env_u64("VERIF_RUNS").unwrap_or(if tier == "thorough" { 8_000_000 } else { 600_000 });
    let batch = Batch {
        runs,
        threads: threads(),
        max_wall: Duration::from_secs(if tier == "thorough" { 3600 } else { 600 }),
        run_timeout: Duration::from_secs(60),
    };
    #[derive(Default)]
    struct Acc {
        stats: ArenaStats,
        // first violation per key: (run_index, violation, k, root_value, history)
        viol: BTreeMap<String, (u64, Violation, usize, u32, Vec<arenasim::ArenaOp>)>,
        n_viol: u64,
        samples: Vec<Value>,
    }
    let out = run_batch(&batch, Acc::default, |run_index, acc: &mut Acc| {
        let rs = run_seed(seed, id, run_index);
        let deep = tier == "thorough" && run_index % 2 == 1;
        let (res, k, root_value) = arenasim::seeded_run_depth(id, rs, deep, &mut acc.stats);
        if run_index < 3 {
            acc.samples.push(json!({"run_index": run_index, "run_seed": rs, "k": k, "history": res.history}));
        }
        if let Some(v) = res.violation {
            acc.n_viol += 1;
            let key = v.key();
            let better = match acc.viol.get(&key) {
                None => true,
                Some((ri, ..)) => run_index < *ri,
            };
            if better {
                acc.viol.insert(key, (run_index, v, k, root_value, res.history));
            }
        }
    });
    let mut stats = ArenaStats::default();
    let mut viol: BTreeMap<String, (u64, Violation, usize, u32, Vec<arenasim::ArenaOp>)> = BTreeMap::new();
    let mut n_viol = 0;
    let mut samples = Vec::new();
    for a in out.accs {
        stats.merge(a.stats);
        n_viol += a.n_viol;
        samples.extend(a.samples);
        for (k, v) in a.viol {
            let better = match viol.get(&k) {
                None => true,
                Some((ri, ..)) => v.0 < *ri,
            };
            if better {
                viol.insert(k, v);
            }
        }
    }
    samples.sort_by_key(|s| s["run_index"].as_u64());

    // minimise, write replay files, confirm in a fresh process
    let mut found: Vec<(Violation, PathBuf)> = Vec::new();
    let mut harness_error = false;
    for (_key, (run_index, v, k, root_value, history)) in &viol {
        let (min_hist, min_v) = arenasim::minimize(id, *k, *root_value, history, v);
        let rep = ArenaReplay {
            property: id.into(),
            simulator: "arenasim".into(),
            seed,
            run_index: *run_index,
            k: *k,
            root_value: *root_value,
            history: min_hist,
            expected: Some(min_v.clone()),
        };
        let path = replay_dir().join(format!("{id}-{seed}-{run_index}-{}.json", min_v.class));
        std::fs::write(&path, serde_json::to_string_pretty(&rep).unwrap()).expect("write replay");
        if !confirm_replay_fresh(&path) {
            eprintln!("harness error: replay {} does not reproduce in a fresh process", path.display());
            harness_error = true;
        }
        found.push((min_v, path));
    }
    let rep = report_lines(&found);

    let wall = out.wall.as_secs_f64();
    let ev = json!({
        "property_id": id, "tier": tier, "seed": seed, "level": "exploration",
        "coverage": {
            "evaluations": stats.histories,
            "distinct_nontrivial": stats.history_hashes.len(),
            "rule": "one evaluation = one seeded operation history (3-60 calls) on Tree<u32,K>, K in {2,3}, \
                     checked against the reference arena after every call (thorough tier, every other run: K up to 5, up to 250 calls). distinct = distinct sequences of \
                     (operation kind, outcome kind); non-trivial = the history contains at least one failing \
                     call (Err or panic) AND at least one re-use of a previously freed index.",
            "samples": samples,
            "operations_executed": stats.ops,
            "operations_by_kind_and_outcome": stats.ops_by_kind_outcome,
            "index_reuses": stats.index_reuses,
            "distinct_tree_shapes_reached": stats.shapes.len(),
            "event_log_digest_sum": format!("{:016x}", stats.event_digest_sum),
            "max_nodes": stats.max_nodes,
            "histories_per_hour": if wall > 0.0 { (stats.histories as f64 / wall * 3600.0) as u64 } else { 0 },
            "simulated_time": "none: the only clock is the operation counter",
            "fault_kinds": "no injected faults: the failing calls (invalid index, occupied slot, missing child, root merge, label out of range) are the fault analogue",
            "real_vs_stub": "Tree<u32,K> and slab run real code; nothing is stubbed",
            "cut_short_by_wall_clock": out.cut_short,
            "violating_histories": n_viol,
            "known_findings_hit": rep.known,
        },
        "assumptions": [
            "add_root on a non-empty tree is the documented exception and is not generated",
            "after a panicking call only the structural invariants are demanded, not an unchanged tree"
        ],
        "wall_s": wall,
        "violations": rep.violations,
    });
    let dir = verif_dir().join("evidence");
    let _ = std::fs::create_dir_all(&dir);
    std::fs::write(dir.join(format!("{id}.json")), serde_json::to_string_pretty(&ev).unwrap()).expect("write evidence");
    eprintln!(
        "C12 {tier}: {} histories, {} ops, {} distinct non-trivial, {:.1}s, violations={} known={}",
        stats.histories,
        stats.ops,
        stats.history_hashes.len(),
        wall,
        rep.violations,
        rep.known
    );
    if harness_error {
        return ExitCode::from(2);
    }
    if rep.violations > 0 {
        ExitCode::from(1)
    } else {
        ExitCode::SUCCESS
    }
}

// ---------------------------------------------------------------------------
// replay
// ---------------------------------------------------------------------------

/// Oracle self-test: dumps seeded constraint systems with the exact LP's answer and the real
/// backend's classification, one JSON object per line, for an independent referee (z3).
pub fn selftest_lp(n: u64, seed: u64) -> ExitCode {
    use crate::exact::{width, Row, Q};
    use crate::prng::Prng;
    let mut rng = Prng::new(mix(&[seed, 0x1b]));
    for _ in 0..n {
        let dim = 1 + rng.below(3);
        let nrows = 1 + rng.below(8);
        let style = rng.below(4);
        let mut rows_f: Vec<(Vec<f64>, f64)> = Vec::new();
        for _ in 0..nrows {
            let draw = |rng: &mut Prng| -> f64 {
                match style {
                    0 => rng.range(-1, 1) as f64,
                    1 => rng.range(-3, 3) as f64,
                    2 => rng.range(-8, 8) as f64 / 4.0,
                    _ => rng.range(-40, 40) as f64 / 8.0,
                }
            };
            let mut a: Vec<f64> = (0..dim).map(|_| draw(&mut rng)).collect();
            let mut b = draw(&mut rng);
            if !rows_f.is_empty() && rng.chance(1, 4) {
                // degenerate: opposite / parallel of an earlier row
                let (pa, pb) = rows_f[rng.below(rows_f.len())].clone();
                a = pa.iter().map(|v| -v).collect();
                b = -pb + if rng.chance(1, 2) { 0.0 } else { draw(&mut rng) };
            }
            rows_f.push((a, b));
        }
        let rows: Vec<Row> = rows_f
            .iter()
            .map(|(a, b)| Row { a: a.iter().map(|v| Q::from_f64(*v)).collect(), b: Q::from_f64(*b) })
            .collect();
        let w = width(dim, &rows);
        let lit = crate::lit::AffLit { indim: dim, mat: rows_f.iter().map(|r| r.0.clone()).collect(), bias: rows_f.iter().map(|r| r.1).collect() };
        let status = lit.to_poly().status();
        let (kind, inside) = match &status {
            affinitree::linalg::polyhedron::PolytopeStatus::Optimal(x) => {
                let xq: Vec<Q> = x.iter().map(|v| Q::from_f64(*v)).collect();
                ("optimal", rows.iter().all(|r| crate::oracle::contains_with_allowance(r, &xq).0))
            }
            affinitree::linalg::polyhedron::PolytopeStatus::Infeasible => ("infeasible", false),
            affinitree::linalg::polyhedron::PolytopeStatus::Unbounded => ("unbounded", false),
            affinitree::linalg::polyhedron::PolytopeStatus::Error(_) => ("error", false),
        };
        let q = |x: &Q| format!("{}/{}", x.numer(), x.denom());
        println!(
            "{}",
            json!({
                "dim": dim,
                "rows": rows.iter().map(|r| { let mut v: Vec<String> = r.a.iter().map(q).collect(); v.push(q(&r.b)); v }).collect::<Vec<_>>(),
                "trivially_empty": w.trivially_empty,
                "rho": q(&w.rho),
                "center": w.center.iter().map(q).collect::<Vec<_>>(),
                "class": format!("{:?}", w.class()),
                "backend": kind,
                "backend_point_inside": inside,
            })
        );
    }
    ExitCode::SUCCESS
}

/// Prints the event log of one seeded run (for determinism diffs).
pub fn trace(id: &str, run_index: u64) -> ExitCode {
    let seed = env_u64("VERIF_SEED").unwrap_or(DEFAULT_SEED);
    let rs = run_seed(seed, id, run_index);
    match id {
        "C03" | "C04" | "C05" | "C06" => {
            let deep = tier_of("quick") == "thorough" && run_index % 2 == 1;
            let r = pwlsim::seeded_history_run_traced(id, rs, deep, true);
            println!("violations: {:?}", r.violations);
        }
        "C11" => {
            let mut ex = 0;
            let mut bad = 0;
            for chunk in 0..pwlsim::CHUNKS {
                let r = pwlsim::seeded_fault_scenario_traced(rs, tier_of("quick") == "thorough", chunk, true);
                ex += r.executions;
                bad += r.violating.len();
            }
            println!("executions: {ex} violating: {bad}");
        }
        "C12" => {
            let mut st = ArenaStats::default();
            let (r, k, _) = arenasim::seeded_run(id, rs, &mut st);
            println!("k={k} history={:?}", r.history);
            println!("digest={:016x} violation={:?}", st.event_digest_sum, r.violation);
        }
        _ => return ExitCode::from(2),
    }
    ExitCode::SUCCESS
}

pub fn replay_file(path: &str) -> ExitCode {
    let text = match std::fs::read_to_string(path) {
        Ok(t) => t,
        Err(e) => {
            eprintln!("cannot read {path}: {e}");
            return ExitCode::from(2);
        }
    };
    let v: Value = match serde_json::from_str(&text) {
        Ok(v) => v,
        Err(e) => {
            eprintln!("cannot parse {path}: {e}");
            return ExitCode::from(2);
        }
    };
    match v["simulator"].as_str() {
        Some("pwlsim") => {
            let rep: PwlReplay = match serde_json::from_value(v) {
                Ok(r) => r,
                Err(e) => {
                    eprintln!("cannot parse pwlsim replay: {e}");
                    return ExitCode::from(2);
                }
            };
            if rep.expected.as_ref().map(|e| e.class == "process_died").unwrap_or(false) && std::env::var("AFFSIM_INNER").is_err() {
                // the history is expected to kill the process: run it in a child
                let exe = std::env::current_exe().expect("current_exe");
                let mut ch = Command::new(exe).arg("replay").arg(path).env("AFFSIM_INNER", "1").stdout(Stdio::null()).stderr(Stdio::null()).spawn().expect("spawn");
                let t0 = Instant::now();
                let died = loop {
                    match ch.try_wait() {
                        Ok(Some(st)) => break st.code().is_none() || st.code() == Some(134),
                        Ok(None) => {
                            if t0.elapsed() > Duration::from_secs(180) {
                                let _ = ch.kill();
                                let _ = ch.wait();
                                break true;
                            }
                            std::thread::sleep(Duration::from_millis(20));
                        }
                        Err(_) => break true,
                    }
                };
                if died {
                    println!("REPRODUCED exactly: the history kills the process at step {}", rep.expected.as_ref().unwrap().step);
                    println!("VIOLATION property={} replay={path}", rep.property);
                    return ExitCode::from(1);
                }
                println!("NOT REPRODUCED: the history no longer kills the process");
                return ExitCode::SUCCESS;
            }
            crate::common::events_reset(std::env::var("VERIF_TRACE").is_ok());
            let res = pwlsim::run_scenario(&rep.scenario, Some(&rep.property));
            let got = match &rep.expected {
                Some(e) => res
                    .violations
                    .iter()
                    .find(|v| v.property == e.property && v.class == e.class && v.site == e.site)
                    .or_else(|| res.violations.iter().find(|v| v.property == rep.property))
                    .cloned(),
                None => res.violations.iter().find(|v| v.property == rep.property).cloned(),
            };
            finish_replay(&rep.property, path, got, rep.expected)
        }
        Some("arenasim") => {
            let rep: ArenaReplay = serde_json::from_value(v).expect("arena replay");
            let res = arenasim::replay_history(&rep.property, rep.k, rep.root_value, &rep.history);
            finish_replay(&rep.property, path, res.violation, rep.expected)
        }
        other => {
            eprintln!("replay files of kind {other:?} cannot be re-executed (crash records only name the runs in flight)");
            ExitCode::from(2)
        }
    }
}

pub fn finish_replay(property: &str, path: &str, got: Option<Violation>, expected: Option<Violation>) -> ExitCode {
    match (got, expected) {
        (Some(g), Some(e)) => {
            if g == e {
                println!("REPRODUCED exactly: class={} site={} step={} detail={}", g.class, g.site, g.step, g.detail);
                println!("VIOLATION property={property} replay={path}");
                ExitCode::from(1)
            } else {
                println!("DIFFERENT violation: got {g:?}, expected {e:?}");
                println!("VIOLATION property={property} replay={path}");
                ExitCode::from(1)
            }
        }
        (Some(g), None) => {
            println!("violation (file had no expectation): {g:?}");
            println!("VIOLATION property={property} replay={path}");
            ExitCode::from(1)
        }
        (None, Some(e)) => {
            println!("NOT REPRODUCED: the history runs clean; expected {e:?}");
            ExitCode::SUCCESS
        }
        (None, None) => {
            println!("history runs clean");
            ExitCode::SUCCESS
        }
    }
}

// ---------------------------------------------------------------------------
// C03 - C06: operation histories with the LP seam in real / legal mode
// ---------------------------------------------------------------------------

fn stats_json(st: &PwlStats) -> Value {
    let mut v = serde_json::to_value(st).unwrap();
    v["event_digest_sum"] = json!(format!("{:016x}", st.event_digest_sum));
    v["distinct_states_reached"] = json!(st.state_hashes.len());
    v
}

fn zero_probe_warnings(st: &PwlStats, wanted: &[&str]) -> Vec<String> {
    let mut out = Vec::new();
    for w in wanted {
        let hit = st.probes.get(*w).copied().unwrap_or(0) + st.elim_counter.get(*w).copied().unwrap_or(0);
        if hit == 0 {
            out.push(format!("probe '{w}' was never hit in this batch"));
        }
    }
    out
}

struct Found {
    /// total order used to pick the reported instance of a violation key (smallest wins)
    order: u64,
    run_index: u64,
    violation: Violation,
    scenario: Scenario,
}

fn minimise_and_report(id: &str, seed: u64, tier: &str, firsts: BTreeMap<String, Found>) -> (Reported, bool) {
    let budget = if tier == "thorough" { 600 } else { 250 };
    let mut found: Vec<(Violation, PathBuf)> = Vec::new();
    let mut harness_error = false;
    for (_key, f) in firsts {
        let (min_sc, min_v) = pwlsim::minimize(&f.scenario, &f.violation, budget);
        let rep = PwlReplay {
            property: id.into(),
            simulator: "pwlsim".into(),
            seed,
            run_index: f.run_index,
            scenario: min_sc,
            expected: Some(min_v.clone()),
        };
        let path = replay_dir().join(format!("{id}-{seed}-{}-{}-{}.json", f.run_index, min_v.class, min_v.site));
        std::fs::write(&path, serde_json::to_string_pretty(&rep).unwrap()).expect("write replay");
        if !confirm_replay_fresh(&path) {
            eprintln!("harness error: replay {} does not reproduce in a fresh process", path.display());
            harness_error = true;
        }
        found.push((min_v, path));
    }
    (report_lines(&found), harness_error)
}

fn worker_history(id: &str, tier: &str, seed: u64) -> ExitCode {
    let default_runs = match (id, tier) {
        (_, "thorough") => 1_500_000,
        _ => 120_000,
    };
    let runs = env_u64("VERIF_RUNS").unwrap_or(default_runs);
    let batch = Batch {
        runs,
        threads: threads(),
        max_wall: Duration::from_secs(env_u64("VERIF_MAX_WALL_S").unwrap_or(if tier == "thorough" { 5400 } else { 900 })),
        run_timeout: Duration::from_secs(120),
    };
    #[derive(Default)]
    struct Acc {
        stats: PwlStats,
        firsts: BTreeMap<String, Found>,
        n_viol_runs: u64,
        other_props: BTreeMap<String, u64>,
        samples: Vec<Value>,
    }
    let crumbs = CrumbWriter::new(id);
    // VERIF_RUN_OFFSET: explore the run indices offset..offset+runs of the same seed (a thorough
    // run that was cut short by the wall clock can be continued where it stopped)
    let offset = env_u64("VERIF_RUN_OFFSET").unwrap_or(0);
    let out = run_batch(&batch, Acc::default, |run_index, acc: &mut Acc| {
        let run_index = run_index + offset;
        crumbs.write(run_index, seed);
        let rs = run_seed(seed, id, run_index);
        let deep = tier == "thorough" && run_index % 2 == 1;
        let res = pwlsim::seeded_history_run(id, rs, deep);
        let mut st = res.stats;
        for (k, v) in crate::logprobe::take() {
            *st.probes.entry(k.to_string()).or_default() += v;
        }
        acc.stats.merge(st);
        if run_index < offset + 2 {
            acc.samples.push(json!({"run_index": run_index, "run_seed": rs, "scenario": res.scenario, "steps_executed": res.steps_done}));
        }
        let mut mine = false;
        for v in res.violations {
            if v.property == id {
                mine = true;
                let key = v.key();
                let better = acc.firsts.get(&key).map(|f| run_index < f.order).unwrap_or(true);
                if better {
                    acc.firsts.insert(key, Found { order: run_index, run_index, violation: v, scenario: res.scenario.clone() });
                }
            } else {
                *acc.other_props.entry(v.property.clone()).or_default() += 1;
            }
        }
        if mine {
            acc.n_viol_runs += 1;
        }
        crumbs.clear();
    });
    let mut stats = PwlStats::default();
    let mut firsts: BTreeMap<String, Found> = BTreeMap::new();
    let mut n_viol_runs = 0;
    let mut other_props: BTreeMap<String, u64> = BTreeMap::new();
    let mut samples = Vec::new();
    for a in out.accs {
        stats.merge(a.stats);
        n_viol_runs += a.n_viol_runs;
        samples.extend(a.samples);
        for (k, v) in a.other_props {
            *other_props.entry(k).or_default() += v;
        }
        for (k, f) in a.firsts {
            let better = firsts.get(&k).map(|g| f.order < g.order).unwrap_or(true);
            if better {
                firsts.insert(k, f);
            }
        }
    }
    samples.sort_by_key(|s| s["run_index"].as_u64());
    let (mut rep, harness_error) = minimise_and_report(id, seed, tier, firsts);
    let pinned = replay_pinned_findings(id);
    rep.known += pinned.known;
    rep.violations += pinned.violations;
    let (corpus, corpus_n) = replay_regression_corpus(id);
    rep.known += corpus.known;
    rep.violations += corpus.violations;

    let wall = out.wall.as_secs_f64();
    let warnings = zero_probe_warnings(&stats, &["parent_sol_inherited", "mirror_heuristic_hits", "cached_state", "lps_infeasible"]);
    for w in &warnings {
        eprintln!("warning: {w}");
    }
    if stats.unconfirmed_disagreements > 0 || stats.nonpruning_mismatches > 0 {
        eprintln!(
            "note: {} model disagreements could not be confirmed on the real code (not reported), {} refinement mismatches on non-pruning steps (properties not claimed here)",
            stats.unconfirmed_disagreements, stats.nonpruning_mismatches
        );
    }
    let rule = "one evaluation = one seeded run: swarm knobs, a pool of 1-3 trees built by the library's constructors, \
                a history of 2-8 operations generated online from the reference model's dimensions, LP seam in real or legal mode; \
                all oracles after every step. distinct = distinct hash of (mode, constructor kinds, operation sequence, set of \
                (shape, node kind, cache state kind) hashes reached); non-trivial = at least one pruning step of the run \
                actually removed nodes (the result has fewer nodes than the unpruned reference or than before).";
    let ev = json!({
        "property_id": id, "tier": tier, "seed": seed, "level": "exploration",
        "coverage": {
            "evaluations": stats.runs,
            "distinct_nontrivial": stats.nontrivial_hashes.len(),
            "rule": rule,
            "samples": samples,
            "runs_per_hour": if wall > 0.0 { (stats.runs as f64 / wall * 3600.0) as u64 } else { 0 },
            "simulated_time": "none: the only clocks are the step counter and the LP call counter",
            "real_vs_stub": "affinitree, minilp, ndarray, slab run real code; the seam post-processes the real backend's answer (real mode: pass-through; legal mode: a different exactly-feasible witness)",
            "fault_kinds": "none injected in this check (legal alternatives only); faults are C11",
            "cut_short_by_wall_clock": out.cut_short,
            "run_index_offset": offset,
            "violating_runs": n_viol_runs,
            "violations_of_other_properties_seen": other_props,
            "known_findings_hit": rep.known,
            "regression_replays_of_repaired_defects_run": corpus_n,
            "zero_probe_warnings": warnings,
            "detail": stats_json(&stats),
        },
        "assumptions": [
            "exactness regime: small-integer / dyadic data, dim <= 3; multiplying operations only on operands whose coefficients are k*2^-12 below 2^12 so that every f64 product and sum is exact",
            "tolerance band tau = 1e-6 on the l1-width of a region: only FAT regions count for function changes, only EMPTY ones for missed pruning",
            "reference model operations (compose, lift, apply) are trusted; a disagreement is reported only after the real code gives two different answers at a concrete input"
        ],
        "wall_s": wall,
        "violations": rep.violations,
    });
    write_evidence(id, &ev);
    eprintln!(
        "{id} {tier}: {} runs, {} steps, {} LP calls, {} distinct non-trivial, {} states, {:.1}s, violations={} known={}",
        stats.runs, stats.steps, stats.lp_calls, stats.nontrivial_hashes.len(), stats.state_hashes.len(), wall, rep.violations, rep.known
    );
    if harness_error {
        return ExitCode::from(2);
    }
    if rep.violations > 0 { ExitCode::from(1) } else { ExitCode::SUCCESS }
}

/// Re-executes the committed replay of every open known finding of this property. A finding that
/// still reproduces is printed as KNOWN-FINDING (through the ordinary matching); one that no longer
/// does is mentioned on stderr - the entry should then become a `fixed` one.
fn replay_pinned_findings(id: &str) -> Reported {
    let known = load_known();
    let mut found: Vec<(Violation, PathBuf)> = Vec::new();
    for f in known.findings.iter().filter(|f| f.status == "open" && f.property == id) {
        let Some(rel) = &f.replay else { continue };
        let path = verif_dir().join(rel);
        let Ok(text) = std::fs::read_to_string(&path) else {
            eprintln!("harness error: pinned replay {} of a known finding is missing", path.display());
            std::process::exit(2);
        };
        let rep: PwlReplay = match serde_json::from_str(&text) {
            Ok(r) => r,
            Err(e) => {
                eprintln!("harness error: pinned replay {}: {e}", path.display());
                std::process::exit(2);
            }
        };
        let res = pwlsim::run_scenario(&rep.scenario, Some(id));
        let mine: Vec<Violation> = res.violations.into_iter().filter(|v| v.property == id).collect();
        if mine.is_empty() {
            eprintln!("note: the known finding pinned in {} no longer reproduces ({})", path.display(), f.what_fails);
        }
        for v in mine {
            found.push((v, path.clone()));
        }
    }
    report_lines(&found)
}

/// Re-executes the committed replay of every *repaired* defect of this property (the regression
/// corpus of known_findings.json). On the repaired tree they run clean; a violation of the
/// property means the defect has returned and is reported like any other violation.
fn replay_regression_corpus(id: &str) -> (Reported, usize) {
    let known = load_known();
    let mut found: Vec<(Violation, PathBuf)> = Vec::new();
    let mut n = 0;
    for r in known.regression_replays.iter().filter(|r| r.property == id) {
        let path = verif_dir().join(&r.replay);
        let Ok(text) = std::fs::read_to_string(&path) else {
            eprintln!("harness error: regression replay {} is missing", path.display());
            std::process::exit(2);
        };
        let rep: PwlReplay = match serde_json::from_str(&text) {
            Ok(r) => r,
            Err(e) => {
                eprintln!("harness error: regression replay {}: {e}", path.display());
                std::process::exit(2);
            }
        };
        n += 1;
        let res = pwlsim::run_scenario(&rep.scenario, Some(id));
        if let Some(v) = res.violations.into_iter().find(|v| v.property == id) {
            found.push((v, path.clone()));
        }
    }
    (report_lines(&found), n)
}

fn write_evidence(id: &str, ev: &Value) {
    let dir = verif_dir().join("evidence");
    let _ = std::fs::create_dir_all(&dir);
    std::fs::write(dir.join(format!("{id}.json")), serde_json::to_string_pretty(ev).unwrap()).expect("write evidence");
}

/// Per-thread breadcrumb files naming the run in flight (read by the supervisor if the worker dies).
struct CrumbWriter {
    dir: PathBuf,
}

impl CrumbWriter {
    fn new(id: &str) -> CrumbWriter {
        let dir = crumb_dir(id);
        let _ = std::fs::remove_dir_all(&dir);
        let _ = std::fs::create_dir_all(&dir);
        CrumbWriter { dir }
    }
    fn path(&self) -> PathBuf {
        self.dir.join(format!("{:?}", std::thread::current().id()).replace(['(', ')'], "_"))
    }
    fn write(&self, run_index: u64, seed: u64) {
        let _ = std::fs::write(self.path(), format!("seed={seed} run_index={run_index}"));
    }
    fn clear(&self) {
        let _ = std::fs::write(self.path(), "");
    }
}

// ---------------------------------------------------------------------------
// C11: fault scenarios
// ---------------------------------------------------------------------------

fn worker_c11(tier: &str, seed: u64) -> ExitCode {
    let id = "C11";
    let thorough = tier == "thorough";
    let runs = env_u64("VERIF_RUNS").unwrap_or(if thorough { 30_000 } else { 300 });
    let chunks = pwlsim::CHUNKS as u64;
    let batch = Batch {
        runs: runs * chunks,
        threads: threads(),
        max_wall: Duration::from_secs(env_u64("VERIF_MAX_WALL_S").unwrap_or(if thorough { 7200 } else { 900 })),
        run_timeout: Duration::from_secs(300),
    };
    #[derive(Default)]
    struct Acc {
        stats: PwlStats,
        firsts: BTreeMap<String, Found>,
        scenarios: u64,
        discarded: u64,
        executions: u64,
        single: u64,
        pairs: u64,
        sampled: u64,
        baseline_calls: u64,
        violating_executions: u64,
        samples: Vec<Value>,
        scenario_hashes: std::collections::BTreeSet<u64>,
    }
    let crumbs = CrumbWriter::new(id);
    // VERIF_RUN_OFFSET: continue the seed's scenario sequence at this scenario index
    let c11_offset = env_u64("VERIF_RUN_OFFSET").unwrap_or(0);
    let out = run_batch(&batch, Acc::default, |item, acc: &mut Acc| {
        // work item = (scenario, chunk): a scenario's plans are spread over CHUNKS items
        let run_index = item / chunks + c11_offset;
        let chunk = (item % chunks) as usize;
        crumbs.write(run_index, seed);
        let rs = run_seed(seed, id, run_index);
        let res = pwlsim::seeded_fault_scenario(rs, thorough, chunk);
        let mut st = res.stats;
        for (k, v) in crate::logprobe::take() {
            *st.probes.entry(k.to_string()).or_default() += v;
        }
        acc.stats.merge(st);
        if chunk == 0 {
            acc.scenarios += 1;
            acc.baseline_calls += res.baseline_calls as u64;
        }
        if res.discarded {
            if chunk == 0 {
                acc.discarded += 1;
            }
        } else if res.baseline_calls > 0 && chunk == 0 {
            let mut h = crate::common::Fnv::new();
            h.str(&serde_json::to_string(&res.base.history.iter().map(|o| o.name()).collect::<Vec<_>>()).unwrap());
            h.u64(res.baseline_calls as u64);
            for c in &res.base.pool {
                h.str(c.short());
            }
            acc.scenario_hashes.insert(h.finish());
        }
        acc.executions += res.executions;
        acc.single += res.enumerated_single;
        acc.pairs += res.enumerated_pairs;
        acc.sampled += res.sampled_plans;
        if chunk == 0 && acc.samples.len() < 2 && !res.discarded && res.baseline_calls > 0 && run_index < c11_offset + 64 {
            acc.samples.push(json!({"run_index": run_index, "run_seed": rs, "scenario": res.base, "lp_calls_of_faulty_suffix_when_fault_free": res.baseline_calls,
                "single_fault_plans_enumerated": res.enumerated_single}));
        }
        for (sc, vs) in res.violating {
            acc.violating_executions += 1;
            for v in vs {
                if v.property != id {
                    continue;
                }
                let key = v.key();
                let better = acc.firsts.get(&key).map(|f| item < f.order).unwrap_or(true);
                if better {
                    acc.firsts.insert(key, Found { order: item, run_index, violation: v, scenario: sc.clone() });
                }
            }
        }
        crumbs.clear();
    });
    let mut a = Acc::default();
    for b in out.accs {
        a.stats.merge(b.stats);
        a.scenarios += b.scenarios;
        a.discarded += b.discarded;
        a.executions += b.executions;
        a.single += b.single;
        a.pairs += b.pairs;
        a.sampled += b.sampled;
        a.baseline_calls += b.baseline_calls;
        a.violating_executions += b.violating_executions;
        a.samples.extend(b.samples);
        a.scenario_hashes.extend(b.scenario_hashes);
        for (k, f) in b.firsts {
            let better = a.firsts.get(&k).map(|g| f.order < g.order).unwrap_or(true);
            if better {
                a.firsts.insert(k, f);
            }
        }
    }
    a.samples.sort_by_key(|s| s["run_index"].as_u64());
    a.samples.truncate(2);
    let stats = a.stats;
    let (mut rep, harness_error) = minimise_and_report(id, seed, tier, a.firsts);
    let pinned = replay_pinned_findings(id);
    rep.known += pinned.known;
    rep.violations += pinned.violations;
    let (corpus, corpus_n) = replay_regression_corpus(id);
    rep.known += corpus.known;
    rep.violations += corpus.violations;
    let wall = out.wall.as_secs_f64();
    let warnings = zero_probe_warnings(
        &stats,
        &["witness_repair_succeeded", "witness_repair_failed", "solver_error_in_elimination", "solver_error_in_edge_test",
          "unbounded_in_edge_test", "parent_indeterminate", "parent_feasible_without_witness", "lps_error"],
    );
    for w in &warnings {
        eprintln!("warning: {w}");
    }
    let rule = "one evaluation = one execution of a scenario's pruning suffix under one fault plan. A scenario = seeded pool + \
                fault-free prefix history (0-3 steps, populates caches) + suffix of 1-3 pruning steps. Per scenario: the fault-free \
                baseline, EVERY (LP call position of the baseline x fault kind of the 12-entry menu) as a single-fault plan \
                (exhaustive for that scenario; scenarios with more than 48 (quick) / 160 (thorough) calls are restricted to that many positions and counted \
                under probes), every pair of positions for <= 8 calls (quick, kinds Error/Unbounded/far-off) or <= 12 calls \
                (thorough, whole menu), plus seeded multi-fault plans. A third of the scenarios answer the un-faulted calls with a \
                different correct witness instead of the backend's own. distinct_nontrivial = distinct scenarios (hash of constructor kinds, operation sequence, number of LP calls) \
                whose suffix makes at least one LP call.";
    let ev = json!({
        "property_id": id, "tier": tier, "seed": seed, "level": "fault_enumeration",
        "coverage": {
            "evaluations": a.executions,
            "distinct_nontrivial": a.scenario_hashes.len(),
            "rule": rule,
            "samples": a.samples,
            "exhaustive": false,
            "exhaustive_note": "single-fault plans are enumerated exhaustively per scenario; scenarios themselves are sampled",
            "scenarios": a.scenarios,
            "scenarios_discarded": a.discarded,
            "single_fault_plans_enumerated": a.single,
            "pair_plans_enumerated": a.pairs,
            "multi_fault_plans_sampled": a.sampled,
            "baseline_lp_calls_total": a.baseline_calls,
            "fault_kinds_configured": stats.faults_configured,
            "fault_kinds_fired": stats.faults_fired,
            "fault_kinds_fired_and_changed_the_answer": stats.faults_fired_changed_answer,
            "distinct_fault_contexts": stats.fault_contexts.len(),
            "executions_per_hour": if wall > 0.0 { (a.executions as f64 / wall * 3600.0) as u64 } else { 0 },
            "simulated_time": "none: the only clocks are the step counter and the LP call counter",
            "real_vs_stub": "affinitree, minilp, ndarray, slab run real code; the fault layer is an interposer on Polytope::solve_linprog that replaces the real backend's answer per the plan. The HiGHS status mapping sits below the seam and is not exercised.",
            "cut_short_by_wall_clock": out.cut_short,
            "violating_executions": a.violating_executions,
            "known_findings_hit": rep.known,
            "regression_replays_of_repaired_defects_run": corpus_n,
            "zero_probe_warnings": warnings,
            "detail": stats_json(&stats),
        },
        "assumptions": [
            "a wrong 'Infeasible' for a feasible polytope is not a fault kind: no caller can defend against it and the property does not list it",
            "a Feasible verdict without witness on an empty region (Unbounded => Feasible by design) is not counted as unsound: its only effect is less pruning",
            "exactness regime and tolerance band as for C03-C06"
        ],
        "wall_s": wall,
        "violations": rep.violations,
    });
    write_evidence(id, &ev);
    eprintln!(
        "C11 {tier}: {} scenarios ({} discarded), {} executions ({} single-fault, {} pairs, {} sampled), {:.1}s, violations={} known={}",
        a.scenarios, a.discarded, a.executions, a.single, a.pairs, a.sampled, wall, rep.violations, rep.known
    );
    if harness_error {
        return ExitCode::from(2);
    }
    if rep.violations > 0 { ExitCode::from(1) } else { ExitCode::SUCCESS }
}
