//! The reference model: a piece-wise affine partial function as a plain recursive value over
//! exact rationals. No arena, no indices, no caches, no pruning, no forwarding.

use std::collections::HashSet;

use affinitree::linalg::affine::AffFunc;
use affinitree::pwl::afftree::AffTree;

use crate::exact::{dot, width, Class, Row, Width, Q};
use crate::lit::BinKind;

#[derive(Clone, Debug, PartialEq, Eq, Hash)]
pub struct AffQ {
    pub indim: usize,
    pub mat: Vec<Vec<Q>>,
    pub bias: Vec<Q>,
}

impl AffQ {
    pub fn from_aff(a: &AffFunc) -> Result<AffQ, String> {
        let indim = a.mat.ncols();
        if a.mat.nrows() != a.bias.len() {
            return Err(format!("matrix has {} rows but bias {}", a.mat.nrows(), a.bias.len()));
        }
        let mut mat = Vec::with_capacity(a.mat.nrows());
        for r in a.mat.rows() {
            let mut row = Vec::with_capacity(indim);
            for v in r.iter() {
                if !v.is_finite() {
                    return Err("non-finite coefficient".into());
                }
                row.push(Q::from_f64(*v));
            }
            mat.push(row);
        }
        let mut bias = Vec::with_capacity(a.bias.len());
        for v in a.bias.iter() {
            if !v.is_finite() {
                return Err("non-finite coefficient".into());
            }
            bias.push(Q::from_f64(*v));
        }
        Ok(AffQ { indim, mat, bias })
    }

    pub fn outdim(&self) -> usize {
        self.bias.len()
    }

    pub fn apply(&self, x: &[Q]) -> Vec<Q> {
        self.mat.iter().zip(&self.bias).map(|(r, b)| dot(r, x).add(b)).collect()
    }

    /// self after other: x -> self(other(x))
    pub fn after(&self, other: &AffQ) -> Result<AffQ, String> {
        if self.indim != other.outdim() {
            return Err(format!("compose {}<-{}", self.indim, other.outdim()));
        }
        let mut mat = Vec::with_capacity(self.outdim());
        let mut bias = Vec::with_capacity(self.outdim());
        for (r, b) in self.mat.iter().zip(&self.bias) {
            let mut row = Vec::with_capacity(other.indim);
            for j in 0..other.indim {
                let mut acc = Q::zero();
                for (k, c) in r.iter().enumerate() {
                    if !c.is_zero() {
                        acc = acc.add(&c.mul(&other.mat[k][j]));
                    }
                }
                row.push(acc);
            }
            mat.push(row);
            bias.push(dot(r, &other.bias).add(b));
        }
        Ok(AffQ { indim: other.indim, mat, bias })
    }

    /// element-wise combination of matrix and bias, as `AffFunc`'s operators do
    pub fn elementwise(&self, other: &AffQ, kind: BinKind) -> Result<AffQ, String> {
        if self.indim != other.indim || self.outdim() != other.outdim() {
            return Err("shape mismatch in element-wise operation".into());
        }
        let f = |a: &Q, b: &Q| match kind {
            BinKind::Add => a.add(b),
            BinKind::Sub => a.sub(b),
            BinKind::Mul => a.mul(b),
        };
        Ok(AffQ {
            indim: self.indim,
            mat: self
                .mat
                .iter()
                .zip(&other.mat)
                .map(|(r, s)| r.iter().zip(s).map(|(a, b)| f(a, b)).collect())
                .collect(),
            bias: self.bias.iter().zip(&other.bias).map(|(a, b)| f(a, b)).collect(),
        })
    }

    pub fn neg(&self) -> AffQ {
        AffQ {
            indim: self.indim,
            mat: self.mat.iter().map(|r| r.iter().map(|a| a.neg()).collect()).collect(),
            bias: self.bias.iter().map(|a| a.neg()).collect(),
        }
    }

    /// largest |coefficient| and whether every coefficient is k*2^-frac with |.| < 2^int
    pub fn fits_fixed(&self, int_bits: u32, frac_bits: u32) -> bool {
        self.mat.iter().flatten().chain(self.bias.iter()).all(|q| q.fits_fixed(int_bits, frac_bits))
    }
}

#[derive(Clone, Debug, PartialEq, Eq)]
pub enum RTree {
    Undef,
    Leaf(AffQ),
    /// label 1 iff pred.a . x <= pred.b
    Node { pred: Row, c0: Box<RTree>, c1: Box<RTree> },
}

#[derive(Clone, Debug)]
pub struct ModelTree {
    pub in_dim: usize,
    pub root: RTree,
}

impl RTree {
    pub fn count_nodes(&self) -> usize {
        match self {
            RTree::Undef => 0,
            RTree::Leaf(_) => 1,
            RTree::Node { c0, c1, .. } => 1 + c0.count_nodes() + c1.count_nodes(),
        }
    }

    pub fn leaves<'a>(&'a self, out: &mut Vec<&'a AffQ>) {
        match self {
            RTree::Undef => {}
            RTree::Leaf(f) => out.push(f),
            RTree::Node { c0, c1, .. } => {
                c0.leaves(out);
                c1.leaves(out);
            }
        }
    }

    pub fn has_undef(&self) -> bool {
        match self {
            RTree::Undef => true,
            RTree::Leaf(_) => false,
            RTree::Node { c0, c1, .. } => c0.has_undef() || c1.has_undef(),
        }
    }

    pub fn map_leaves(&self, f: &mut dyn FnMut(&AffQ) -> Result<RTree, String>) -> Result<RTree, String> {
        Ok(match self {
            RTree::Undef => RTree::Undef,
            RTree::Leaf(l) => f(l)?,
            RTree::Node { pred, c0, c1 } => RTree::Node {
                pred: pred.clone(),
                c0: Box::new(c0.map_leaves(f)?),
                c1: Box::new(c1.map_leaves(f)?),
            },
        })
    }

    pub fn eval(&self, x: &[Q]) -> Option<Vec<Q>> {
        match self {
            RTree::Undef => None,
            RTree::Leaf(f) => Some(f.apply(x)),
            RTree::Node { pred, c0, c1 } => {
                if dot(&pred.a, x) <= pred.b {
                    c1.eval(x)
                } else {
                    c0.eval(x)
                }
            }
        }
    }
}

impl ModelTree {
    /// Exact conversion of a real tree, following `children[label]`; a missing child is Undef,
    /// a leaf is a Leaf whatever shape it has. Errors describe an ill-formed tree.
    pub fn snapshot(tree: &AffTree<2>) -> Result<ModelTree, String> {
        fn rec(tree: &AffTree<2>, idx: usize, depth: usize) -> Result<RTree, String> {
            if depth > 10_000 {
                return Err("tree deeper than 10000: cyclic?".into());
            }
            let node = tree.tree.tree_node(idx).map_err(|_| format!("child index {idx} not stored"))?;
            let aff = AffQ::from_aff(&node.value.aff).map_err(|e| format!("node {idx}: {e}"))?;
            if node.isleaf {
                return Ok(RTree::Leaf(aff));
            }
            if aff.outdim() != 1 {
                return Err(format!("decision node {idx} has {} rows", aff.outdim()));
            }
            let pred = Row { a: aff.mat[0].clone(), b: aff.bias[0].clone() };
            let c0 = match node.children[0] {
                Some(c) => rec(tree, c, depth + 1)?,
                None => RTree::Undef,
            };
            let c1 = match node.children[1] {
                Some(c) => rec(tree, c, depth + 1)?,
                None => RTree::Undef,
            };
            Ok(RTree::Node { pred, c0: Box::new(c0), c1: Box::new(c1) })
        }
        Ok(ModelTree { in_dim: tree.in_dim(), root: rec(tree, tree.tree.get_root_idx(), 0)? })
    }

    /// common output dimension of the leaves (None if they disagree or there is no leaf)
    pub fn out_dim(&self) -> Option<usize> {
        let mut ls = Vec::new();
        self.root.leaves(&mut ls);
        let d = ls.first()?.outdim();
        if ls.iter().all(|l| l.outdim() == d) {
            Some(d)
        } else {
            None
        }
    }

    pub fn leaf_set(&self) -> HashSet<AffQ> {
        let mut ls = Vec::new();
        self.root.leaves(&mut ls);
        ls.into_iter().cloned().collect()
    }

    pub fn num_leaves(&self) -> usize {
        let mut ls = Vec::new();
        self.root.leaves(&mut ls);
        ls.len()
    }

    pub fn is_total(&self) -> bool {
        !self.root.has_undef()
    }

    pub fn max_fixed(&self, int_bits: u32, frac_bits: u32) -> bool {
        fn rec(t: &RTree, i: u32, f: u32) -> bool {
            match t {
                RTree::Undef => true,
                RTree::Leaf(l) => l.fits_fixed(i, f),
                RTree::Node { pred, c0, c1 } => {
                    pred.a.iter().all(|q| q.fits_fixed(i, f)) && pred.b.fits_fixed(i, f) && rec(c0, i, f) && rec(c1, i, f)
                }
            }
        }
        rec(&self.root, int_bits, frac_bits)
    }

    // ----- model operations ------------------------------------------------

    pub fn apply_func(&self, g: &AffQ) -> Result<ModelTree, String> {
        Ok(ModelTree { in_dim: self.in_dim, root: self.root.map_leaves(&mut |f| Ok(RTree::Leaf(g.after(f)?)))? })
    }

    /// x -> other(self(x))
    pub fn compose(&self, other: &ModelTree) -> Result<ModelTree, String> {
        fn subst(t: &RTree, f: &AffQ) -> Result<RTree, String> {
            Ok(match t {
                RTree::Undef => RTree::Undef,
                RTree::Leaf(g) => RTree::Leaf(g.after(f)?),
                RTree::Node { pred, c0, c1 } => {
                    if pred.a.len() != f.outdim() {
                        return Err("predicate dimension mismatch in compose".into());
                    }
                    // a.(Mx + c) <= b   <=>   (aM).x <= b - a.c
                    let mut a = Vec::with_capacity(f.indim);
                    for j in 0..f.indim {
                        let mut acc = Q::zero();
                        for (k, c) in pred.a.iter().enumerate() {
                            if !c.is_zero() {
                                acc = acc.add(&c.mul(&f.mat[k][j]));
                            }
                        }
                        a.push(acc);
                    }
                    let b = pred.b.sub(&dot(&pred.a, &f.bias));
                    RTree::Node {
                        pred: Row { a, b },
                        c0: Box::new(subst(c0, f)?),
                        c1: Box::new(subst(c1, f)?),
                    }
                }
            })
        }
        Ok(ModelTree { in_dim: self.in_dim, root: self.root.map_leaves(&mut |f| subst(&other.root, f))? })
    }

    /// x -> self(x) (op) other(x), with AffFunc's element-wise meaning of op
    pub fn lift(&self, other: &ModelTree, kind: BinKind) -> Result<ModelTree, String> {
        if self.in_dim != other.in_dim {
            return Err("input dimension mismatch in lifted operation".into());
        }
        Ok(ModelTree {
            in_dim: self.in_dim,
            root: self
                .root
                .map_leaves(&mut |f| other.root.map_leaves(&mut |g| Ok(RTree::Leaf(f.elementwise(g, kind)?))))?,
        })
    }

    pub fn map(&self, f: &mut dyn FnMut(&AffQ) -> Result<AffQ, String>) -> Result<ModelTree, String> {
        Ok(ModelTree { in_dim: self.in_dim, root: self.root.map_leaves(&mut |l| Ok(RTree::Leaf(f(l)?)))? })
    }

    /// Fix the coordinates given in `point` (Some) and drop them from the input space.
    pub fn slice(&self, point: &[Option<Q>]) -> ModelTree {
        let keep: Vec<usize> = (0..self.in_dim).filter(|i| point[*i].is_none()).collect();
        fn rec(t: &RTree, point: &[Option<Q>], keep: &[usize]) -> RTree {
            match t {
                RTree::Undef => RTree::Undef,
                RTree::Leaf(f) => {
                    let mut mat = Vec::new();
                    let mut bias = Vec::new();
                    for (r, b) in f.mat.iter().zip(&f.bias) {
                        let mut bb = b.clone();
                        for (j, p) in point.iter().enumerate() {
                            if let Some(p) = p {
                                bb = bb.add(&r[j].mul(p));
                            }
                        }
                        mat.push(keep.iter().map(|j| r[*j].clone()).collect());
                        bias.push(bb);
                    }
                    RTree::Leaf(AffQ { indim: keep.len(), mat, bias })
                }
                RTree::Node { pred, c0, c1 } => {
                    let mut b = pred.b.clone();
                    for (j, p) in point.iter().enumerate() {
                        if let Some(p) = p {
                            b = b.sub(&pred.a[j].mul(p));
                        }
                    }
                    RTree::Node {
                        pred: Row { a: keep.iter().map(|j| pred.a[*j].clone()).collect(), b },
                        c0: Box::new(rec(c0, point, keep)),
                        c1: Box::new(rec(c1, point, keep)),
                    }
                }
            }
        }
        ModelTree { in_dim: keep.len(), root: rec(&self.root, point, &keep) }
    }
}

// ---------------------------------------------------------------------------
// Equivalence walk
// ---------------------------------------------------------------------------

#[derive(Clone, Debug)]
pub struct Disagreement {
    /// "definedness" or "value"
    pub kind: &'static str,
    /// an interior point of the region (centre of the width LP)
    pub point: Vec<Q>,
    pub rho: Q,
    pub left: Option<AffQ>,
    pub right: Option<AffQ>,
}

impl Disagreement {
    /// Interior points of the region: the centre and the centre moved by rho/2 along every axis.
    /// Two different affine maps cannot agree on all of them (n+1 affinely independent points).
    pub fn candidate_points(&self) -> Vec<Vec<Q>> {
        let mut out = vec![self.point.clone()];
        let h = self.rho.mul(&Q::ratio(1, 2));
        for j in 0..self.point.len() {
            let mut p = self.point.clone();
            p[j] = p[j].add(&h);
            out.push(p);
        }
        out
    }
}

#[derive(Default, Debug, Clone)]
pub struct WalkStats {
    pub cells: u64,
    pub fat_leaf_cells: u64,
    pub thin_or_empty_cells: u64,
}

/// Compares the functions of `a` and `b` on every FAT cell of the common refinement.
/// Returns the first disagreement in DFS order (label 0 side first).
pub fn walk(a: &ModelTree, b: &ModelTree, stats: &mut WalkStats) -> Option<Disagreement> {
    walk_in_box(a, b, None, stats)
}

/// The rows |x_j| <= bound.
pub fn box_rows(dim: usize, bound: f64) -> Vec<Row> {
    let b = Q::from_f64(bound);
    let mut rows = Vec::with_capacity(2 * dim);
    for j in 0..dim {
        for sign in [1i64, -1] {
            let mut a = vec![Q::zero(); dim];
            a[j] = Q::int(sign);
            rows.push(Row { a, b: b.clone() });
        }
    }
    rows
}

/// Like [`walk`], restricted to the box |x_j| <= bound. Used in the float regime, where rows that
/// are opposite up to rounding open wedges 1e16 away that no f64 evaluation can resolve.
pub fn walk_in_box(a: &ModelTree, b: &ModelTree, bound: Option<f64>, stats: &mut WalkStats) -> Option<Disagreement> {
    assert_eq!(a.in_dim, b.in_dim, "walk needs equal input dimensions");
    let mut region: Vec<Row> = match bound {
        Some(bd) => box_rows(a.in_dim, bd),
        None => Vec::new(),
    };
    walk_rec(a.in_dim, &a.root, &b.root, &mut region, None, stats)
}

/// Splits `region` by `pred` and calls `k(truth, region, inherited width)` for the sides worth visiting.
/// A predicate that already occurs in the region (or whose negation does) needs no LP: one side is the
/// region itself, the other has width <= 0.
fn split_region(
    pred: &Row,
    region: &mut Vec<Row>,
    w: &Width,
    k: &mut dyn FnMut(bool, &mut Vec<Row>, Option<Width>) -> Option<Disagreement>,
) -> Option<Disagreement> {
    if pred.is_zero_row() {
        // constant predicate: 0 <= b
        let truth = !pred.b.is_neg();
        return k(truth, region, Some(w.clone()));
    }
    let neg = pred.negated();
    if region.iter().any(|r| r == pred) {
        return k(true, region, Some(w.clone()));
    }
    if region.iter().any(|r| *r == neg) {
        return k(false, region, Some(w.clone()));
    }
    region.push(neg);
    let r0 = k(false, region, None);
    region.pop();
    if r0.is_some() {
        return r0;
    }
    region.push(pred.clone());
    let r1 = k(true, region, None);
    region.pop();
    r1
}

fn walk_rec(
    dim: usize,
    a: &RTree,
    b: &RTree,
    region: &mut Vec<Row>,
    inherited: Option<Width>,
    stats: &mut WalkStats,
) -> Option<Disagreement> {
    stats.cells += 1;
    let w = match inherited {
        Some(w) => w,
        None => width(dim, region),
    };
    if w.class() != Class::Fat {
        stats.thin_or_empty_cells += 1;
        return None;
    }
    match (a, b) {
        (RTree::Node { pred, c0, c1 }, _) => split_region(pred, region, &w, &mut |t, region, inh| {
            walk_rec(dim, if t { c1 } else { c0 }, b, region, inh, stats)
        }),
        (_, RTree::Node { pred, c0, c1 }) => split_region(pred, region, &w, &mut |t, region, inh| {
            walk_rec(dim, a, if t { c1 } else { c0 }, region, inh, stats)
        }),
        (RTree::Undef, RTree::Undef) => {
            stats.fat_leaf_cells += 1;
            None
        }
        (RTree::Leaf(f), RTree::Leaf(g)) => {
            stats.fat_leaf_cells += 1;
            if f == g {
                None
            } else {
                Some(Disagreement {
                    kind: "value",
                    point: w.center.clone(),
                    rho: w.rho.clone(),
                    left: Some(f.clone()),
                    right: Some(g.clone()),
                })
            }
        }
        (l, r) => {
            stats.fat_leaf_cells += 1;
            let get = |t: &RTree| match t {
                RTree::Leaf(f) => Some(f.clone()),
                _ => None,
            };
            Some(Disagreement {
                kind: "definedness",
                point: w.center.clone(),
                rho: w.rho.clone(),
                left: get(l),
                right: get(r),
            })
        }
    }
}

/// Number of leaves (defined or not) whose true region is FAT: the full-dimensional pieces.
pub fn count_fat_leaves(t: &ModelTree, bound: Option<f64>, stats: &mut WalkStats) -> usize {
    fn rec(dim: usize, t: &RTree, region: &mut Vec<Row>, stats: &mut WalkStats) -> usize {
        stats.cells += 1;
        if width(dim, region).class() != Class::Fat {
            return 0;
        }
        match t {
            RTree::Undef => 0,
            RTree::Leaf(_) => 1,
            RTree::Node { pred, c0, c1 } => {
                if pred.is_zero_row() {
                    return rec(dim, if pred.b.is_neg() { c0 } else { c1 }, region, stats);
                }
                region.push(pred.negated());
                let n0 = rec(dim, c0, region, stats);
                region.pop();
                region.push(pred.clone());
                let n1 = rec(dim, c1, region, stats);
                region.pop();
                n0 + n1
            }
        }
    }
    let mut region = match bound {
        Some(bd) => box_rows(t.in_dim, bd),
        None => Vec::new(),
    };
    rec(t.in_dim, &t.root, &mut region, stats)
}

#[cfg(test)]
mod tests {
    use super::*;
    use crate::prng::Prng;

    fn rand_aff(rng: &mut Prng, indim: usize, outdim: usize) -> AffQ {
        AffQ {
            indim,
            mat: (0..outdim).map(|_| (0..indim).map(|_| Q::ratio(rng.range(-4, 4), 2)).collect()).collect(),
            bias: (0..outdim).map(|_| Q::ratio(rng.range(-4, 4), 2)).collect(),
        }
    }

    fn rand_tree(rng: &mut Prng, indim: usize, outdim: usize, depth: usize) -> RTree {
        if depth == 0 || rng.chance(1, 4) {
            return if rng.chance(1, 6) { RTree::Undef } else { RTree::Leaf(rand_aff(rng, indim, outdim)) };
        }
        let pred = Row { a: (0..indim).map(|_| Q::int(rng.range(-2, 2))).collect(), b: Q::ratio(rng.range(-4, 4), 2) };
        RTree::Node { pred, c0: Box::new(rand_tree(rng, indim, outdim, depth - 1)), c1: Box::new(rand_tree(rng, indim, outdim, depth - 1)) }
    }

    fn lattice(dim: usize) -> Vec<Vec<Q>> {
        let vals: Vec<Q> = (-6..=6).map(|k| Q::ratio(k, 4)).collect();
        let mut pts: Vec<Vec<Q>> = vec![vec![]];
        for _ in 0..dim {
            let mut next = Vec::new();
            for p in &pts {
                for v in &vals {
                    let mut q = p.clone();
                    q.push(v.clone());
                    next.push(q);
                }
            }
            pts = next;
        }
        pts
    }

    #[test]
    fn compose_and_lift_are_pointwise() {
        let mut rng = Prng::new(11);
        for _ in 0..200 {
            let d = 1 + rng.below(2);
            let m = 1 + rng.below(2);
            let o = 1 + rng.below(2);
            let a = ModelTree { in_dim: d, root: rand_tree(&mut rng, d, m, 2) };
            let b = ModelTree { in_dim: m, root: rand_tree(&mut rng, m, o, 2) };
            let c = a.compose(&b).unwrap();
            let a2 = ModelTree { in_dim: d, root: rand_tree(&mut rng, d, m, 2) };
            let s = a.lift(&a2, BinKind::Add).unwrap();
            let g = rand_aff(&mut rng, m, o);
            let ap = a.apply_func(&g).unwrap();
            for x in lattice(d) {
                assert_eq!(c.root.eval(&x), a.root.eval(&x).and_then(|y| b.root.eval(&y)));
                let want = match (a.root.eval(&x), a2.root.eval(&x)) {
                    (Some(u), Some(v)) => Some(u.iter().zip(&v).map(|(p, q)| p.add(q)).collect::<Vec<Q>>()),
                    _ => None,
                };
                assert_eq!(s.root.eval(&x), want);
                assert_eq!(ap.root.eval(&x), a.root.eval(&x).map(|y| g.apply(&y)));
            }
        }
    }

    #[test]
    fn walk_agrees_with_lattice_evaluation() {
        // If the walk reports no disagreement, the two trees agree on every lattice point that
        // lies in the interior of a cell; if it reports one, they differ at the reported point.
        let mut rng = Prng::new(5);
        let mut found = 0;
        for it in 0..300 {
            let d = 1 + rng.below(2);
            let a = ModelTree { in_dim: d, root: rand_tree(&mut rng, d, 1, 3) };
            // b: a copy with one leaf changed / removed, or an independent tree
            let b = if it % 3 == 0 {
                ModelTree { in_dim: d, root: rand_tree(&mut rng, d, 1, 3) }
            } else {
                a.clone()
            };
            let mut st = WalkStats::default();
            match walk(&a, &b, &mut st) {
                Some(dis) => {
                    found += 1;
                    assert!(
                        dis.candidate_points().iter().any(|p| a.root.eval(p) != b.root.eval(p)),
                        "no candidate point separates the two trees"
                    );
                }
                None => {
                    for x in lattice(d) {
                        if a.root.eval(&x) != b.root.eval(&x) {
                            // allowed only on a lower-dimensional set: some predicate of a or b is tight at x
                            fn tight(t: &RTree, x: &[Q]) -> bool {
                                match t {
                                    RTree::Node { pred, c0, c1 } => dot(&pred.a, x) == pred.b || tight(c0, x) || tight(c1, x),
                                    _ => false,
                                }
                            }
                            assert!(tight(&a.root, &x) || tight(&b.root, &x), "walk missed a full-dimensional disagreement at {x:?}");
                        }
                    }
                }
            }
        }
        assert!(found > 20);
    }
}
