//! Literal (serialisable) descriptions of everything a history contains, and their
//! construction through the library's public API.

use affinitree::distill::builder::Layer;
use affinitree::distill::schema;
use affinitree::linalg::affine::{AffFunc, Polytope};
use affinitree::pwl::afftree::AffTree;
use ndarray::{Array1, Array2};
use serde::{Deserialize, Serialize};

#[derive(Clone, Debug, Serialize, Deserialize, PartialEq)]
pub struct AffLit {
    pub indim: usize,
    /// rows of the matrix
    pub mat: Vec<Vec<f64>>,
    pub bias: Vec<f64>,
}

impl AffLit {
    pub fn outdim(&self) -> usize {
        self.bias.len()
    }

    pub fn to_arrays(&self) -> (Array2<f64>, Array1<f64>) {
        let rows = self.mat.len();
        let mut m = Array2::<f64>::zeros((rows, self.indim));
        for (i, r) in self.mat.iter().enumerate() {
            assert_eq!(r.len(), self.indim);
            for (j, v) in r.iter().enumerate() {
                m[[i, j]] = *v;
            }
        }
        (m, Array1::from_vec(self.bias.clone()))
    }

    pub fn to_aff(&self) -> AffFunc {
        let (m, b) = self.to_arrays();
        AffFunc::from_mats(m, b)
    }

    pub fn to_poly(&self) -> Polytope {
        let (m, b) = self.to_arrays();
        Polytope::from_mats(m, b)
    }

    pub fn from_aff(a: &AffFunc) -> AffLit {
        AffLit {
            indim: a.mat.ncols(),
            mat: a.mat.rows().into_iter().map(|r| r.to_vec()).collect(),
            bias: a.bias.to_vec(),
        }
    }

    pub fn max_abs(&self) -> f64 {
        let mut m: f64 = 0.0;
        for r in &self.mat {
            for v in r {
                m = m.max(v.abs());
            }
        }
        for v in &self.bias {
            m = m.max(v.abs());
        }
        m
    }
}

#[derive(Clone, Debug, Serialize, Deserialize, PartialEq)]
pub struct NodeLit {
    /// position of the parent in `nodes` (None for the root, which must be first)
    pub parent: Option<usize>,
    pub label: usize,
    pub aff: AffLit,
}

#[derive(Clone, Debug, Serialize, Deserialize, PartialEq)]
pub struct TreeLit {
    pub in_dim: usize,
    pub nodes: Vec<NodeLit>,
}

impl TreeLit {
    pub fn build(&self) -> AffTree<2> {
        let mut tree = AffTree::<2>::from_aff(self.nodes[0].aff.to_aff());
        let mut idx = vec![tree.tree.get_root_idx()];
        for n in &self.nodes[1..] {
            let p = idx[n.parent.expect("non-root literal node has a parent")];
            let i = tree
                .add_child_node(p, n.label, n.aff.to_aff())
                .expect("literal tree is well-formed");
            idx.push(i);
        }
        tree
    }
}

#[derive(Clone, Debug, Serialize, Deserialize, PartialEq)]
#[serde(tag = "schema")]
pub enum SchemaLit {
    Relu { dim: usize, row: usize },
    LeakyRelu { dim: usize, row: usize, alpha: f64 },
    HardTanh { dim: usize, row: usize, min: f64, max: f64 },
    HardShrink { dim: usize, row: usize, lambda: f64 },
    Threshold { dim: usize, row: usize, threshold: f64, value: f64 },
    Argmax { dim: usize },
    ClassChar { dim: usize, clazz: usize },
    InfNorm { dim: usize, min: Option<f64>, max: Option<f64> },
}

impl SchemaLit {
    pub fn build(&self) -> AffTree<2> {
        match *self {
            SchemaLit::Relu { dim, row } => schema::partial_ReLU(dim, row),
            SchemaLit::LeakyRelu { dim, row, alpha } => schema::partial_leaky_ReLU(dim, row, alpha),
            SchemaLit::HardTanh { dim, row, min, max } => schema::partial_hard_tanh(dim, row, min, max),
            SchemaLit::HardShrink { dim, row, lambda } => schema::partial_hard_shrink(dim, row, lambda),
            SchemaLit::Threshold { dim, row, threshold, value } => {
                schema::partial_threshold(dim, row, threshold, value)
            }
            SchemaLit::Argmax { dim } => schema::argmax(dim),
            SchemaLit::ClassChar { dim, clazz } => schema::class_characterization(dim, clazz),
            SchemaLit::InfNorm { dim, min, max } => schema::inf_norm(dim, min, max),
        }
    }

    pub fn in_dim(&self) -> usize {
        match *self {
            SchemaLit::Relu { dim, .. }
            | SchemaLit::LeakyRelu { dim, .. }
            | SchemaLit::HardTanh { dim, .. }
            | SchemaLit::HardShrink { dim, .. }
            | SchemaLit::Threshold { dim, .. }
            | SchemaLit::Argmax { dim }
            | SchemaLit::ClassChar { dim, .. }
            | SchemaLit::InfNorm { dim, .. } => dim,
        }
    }

    pub fn out_dim(&self) -> usize {
        match *self {
            SchemaLit::Argmax { .. } | SchemaLit::ClassChar { .. } | SchemaLit::InfNorm { .. } => 1,
            _ => self.in_dim(),
        }
    }

    pub fn short(&self) -> &'static str {
        match self {
            SchemaLit::Relu { .. } => "relu",
            SchemaLit::LeakyRelu { .. } => "leaky_relu",
            SchemaLit::HardTanh { .. } => "hard_tanh",
            SchemaLit::HardShrink { .. } => "hard_shrink",
            SchemaLit::Threshold { .. } => "threshold",
            SchemaLit::Argmax { .. } => "argmax",
            SchemaLit::ClassChar { .. } => "class_char",
            SchemaLit::InfNorm { .. } => "inf_norm",
        }
    }
}

/// How a pool tree comes into being: only the library's constructors.
#[derive(Clone, Debug, Serialize, Deserialize, PartialEq)]
#[serde(tag = "ctor")]
pub enum Ctor {
    New { dim: usize },
    FromAff { aff: AffLit },
    FromPoly { poly: AffLit, f_true: AffLit, f_false: Option<AffLit> },
    FromSlice { point: Vec<Option<f64>> },
    Schema { schema: SchemaLit },
    /// node-by-node construction (add_child_node), well-formed by construction
    Literal { tree: TreeLit },
}

pub fn slice_point(point: &[Option<f64>]) -> Array1<f64> {
    Array1::from_vec(point.iter().map(|p| p.unwrap_or(f64::NAN)).collect())
}

impl Ctor {
    pub fn build(&self) -> AffTree<2> {
        match self {
            Ctor::New { dim } => AffTree::<2>::new(*dim),
            Ctor::FromAff { aff } => AffTree::<2>::from_aff(aff.to_aff()),
            Ctor::FromPoly { poly, f_true, f_false } => {
                let ff = f_false.as_ref().map(|f| f.to_aff());
                AffTree::<2>::from_poly(poly.to_poly(), f_true.to_aff(), ff.as_ref())
                    .expect("generator keeps from_poly dimension-compatible")
            }
            Ctor::FromSlice { point } => AffTree::<2>::from_slice(&slice_point(point)),
            Ctor::Schema { schema } => schema.build(),
            Ctor::Literal { tree } => tree.build(),
        }
    }

    pub fn short(&self) -> &'static str {
        match self {
            Ctor::New { .. } => "new",
            Ctor::FromAff { .. } => "from_aff",
            Ctor::FromPoly { f_false: None, .. } => "from_poly_partial",
            Ctor::FromPoly { .. } => "from_poly_total",
            Ctor::FromSlice { .. } => "from_slice",
            Ctor::Schema { schema } => schema.short(),
            Ctor::Literal { .. } => "literal",
        }
    }
}

#[derive(Clone, Debug, Serialize, Deserialize, PartialEq)]
#[serde(tag = "layer")]
pub enum LayerLit {
    Linear { aff: AffLit },
    Relu { row: usize },
    LeakyRelu { row: usize, alpha: f64 },
    HardTanh { row: usize },
    ClassChar { clazz: usize },
    Argmax,
}

impl LayerLit {
    pub fn build(&self) -> Layer {
        match self {
            LayerLit::Linear { aff } => Layer::Linear(aff.to_aff()),
            LayerLit::Relu { row } => Layer::ReLU(*row),
            LayerLit::LeakyRelu { row, alpha } => Layer::LeakyReLU(*row, *alpha),
            LayerLit::HardTanh { row } => Layer::HardTanh(*row),
            LayerLit::ClassChar { clazz } => Layer::ClassChar(*clazz),
            LayerLit::Argmax => Layer::Argmax,
        }
    }
}

/// The tree argument of a binary operation: a schema built on the spot or another pool slot.
#[derive(Clone, Debug, Serialize, Deserialize, PartialEq)]
#[serde(tag = "arg")]
pub enum TreeArg {
    Schema { schema: SchemaLit },
    Slot { slot: usize },
}

#[derive(Clone, Copy, Debug, Serialize, Deserialize, PartialEq, Eq)]
pub enum BinKind {
    Add,
    Sub,
    Mul,
}

#[derive(Clone, Debug, Serialize, Deserialize, PartialEq)]
#[serde(tag = "op")]
pub enum Op {
    ApplyFunc { slot: usize, aff: AffLit },
    Compose { slot: usize, prune: bool, other: TreeArg },
    Eliminate { slot: usize },
    Reduce { slot: usize },
    Bin { kind: BinKind, slot: usize, other: TreeArg },
    Neg { slot: usize },
    /// tree (+|-|*) affine, or affine (+|-|*) tree when `aff_left`
    Scalar { kind: BinKind, slot: usize, aff: AffLit, aff_left: bool },
    CloneTo { from: usize, to: usize },
    /// from_slice(point).compose::<false>(slot); infeasible_elimination(); remove_axes(kept axes)
    Slice { slot: usize, point: Vec<Option<f64>> },
    /// remove_axes(keep) on its own: drops input axes whatever their coefficients (the represented
    /// function changes as if the dropped coordinates were fixed to 0); caches must not go stale
    RemoveAxes { slot: usize, keep: Vec<bool> },
    /// afftree_from_layers(dim, layers, precondition) stored into `slot`
    Pipeline { slot: usize, dim: usize, layers: Vec<LayerLit>, pre: Option<Ctor> },
}

impl Op {
    pub fn name(&self) -> String {
        match self {
            Op::ApplyFunc { .. } => "apply_func".into(),
            Op::Compose { prune: true, .. } => "compose_pruned".into(),
            Op::Compose { prune: false, .. } => "compose_unpruned".into(),
            Op::Eliminate { .. } => "infeasible_elimination".into(),
            Op::Reduce { .. } => "reduce".into(),
            Op::Bin { kind, .. } => format!("tree_{kind:?}").to_lowercase(),
            Op::Neg { .. } => "neg".into(),
            Op::Scalar { kind, aff_left, .. } => {
                format!("scalar_{kind:?}{}", if *aff_left { "_rev" } else { "" }).to_lowercase()
            }
            Op::CloneTo { .. } => "clone".into(),
            Op::Slice { .. } => "slice_eliminate_remove_axes".into(),
            Op::RemoveAxes { .. } => "remove_axes".into(),
            Op::Pipeline { .. } => "afftree_from_layers".into(),
        }
    }

    /// Operations during which the library prunes (LP-dependent behaviour).
    pub fn prunes(&self) -> bool {
        matches!(
            self,
            Op::Compose { prune: true, .. } | Op::Eliminate { .. } | Op::Bin { .. } | Op::Slice { .. } | Op::Pipeline { .. }
        )
    }
}
