//! Oracles on a real `AffTree<2>`: structural well-formedness (C04), cache soundness (C05),
//! effectiveness / idempotence of elimination (C06), and the LP audit.

use std::collections::{BTreeMap, BTreeSet, HashSet};

use affinitree::pwl::afftree::AffTree;
use affinitree::pwl::node::NodeState;

use crate::common::{guarded, panic_site, Fnv};
use crate::exact::{dot, width, Class, Row, Q};
use crate::lpseam::{rows_of, LpRecord, StatusKind};
use crate::model::AffQ;

pub type Fail = (String, String); // (class, detail)

/// Arena-level and shape-level well-formedness. `leafset`: the terminal functions the reference
/// model allows (every real terminal must hold one of them).
pub fn check_wellformed(
    tree: &AffTree<2>,
    in_dim: usize,
    out_dim: Option<usize>,
    leafset: Option<&HashSet<AffQ>>,
) -> Result<(), Fail> {
    if tree.in_dim() != in_dim {
        return Err(("in_dim_changed".into(), format!("tree.in_dim()={} expected {}", tree.in_dim(), in_dim)));
    }
    let t = &tree.tree;
    let mut stored: BTreeSet<usize> = BTreeSet::new();
    let mut parentless = Vec::new();
    for (idx, node) in t.node_iter() {
        stored.insert(idx);
        let n_children = node.children.iter().flatten().count();
        if node.isleaf != (n_children == 0) {
            return Err(("leaf_flag".into(), format!("node {idx}: isleaf={} with {n_children} children", node.isleaf)));
        }
        match node.parent {
            None => parentless.push(idx),
            Some(p) => {
                let ok = t
                    .tree_node(p)
                    .map(|pn| pn.children.iter().filter(|c| **c == Some(idx)).count() == 1)
                    .unwrap_or(false);
                if !ok {
                    return Err(("links_not_mirrored".into(), format!("node {idx}: parent {p} does not list it exactly once")));
                }
            }
        }
        for c in node.children.iter().flatten() {
            let ok = t.tree_node(*c).map(|cn| cn.parent == Some(idx)).unwrap_or(false);
            if !ok {
                return Err(("links_not_mirrored".into(), format!("node {idx}: child {c} missing or has another parent")));
            }
        }
        let aff = &node.value.aff;
        if aff.mat.nrows() != aff.bias.len() {
            return Err(("matrix_bias_mismatch".into(), format!("node {idx}: {} rows vs bias {}", aff.mat.nrows(), aff.bias.len())));
        }
        if aff.mat.ncols() != in_dim {
            return Err((
                "node_input_dim".into(),
                format!("node {idx} ({}): function has input dim {} but the tree has {}", if node.isleaf { "terminal" } else { "decision" }, aff.mat.ncols(), in_dim),
            ));
        }
        if aff.mat.iter().chain(aff.bias.iter()).any(|v| !v.is_finite()) {
            return Err(("non_finite_coefficient".into(), format!("node {idx}")));
        }
        if node.isleaf {
            if let Some(od) = out_dim {
                if aff.bias.len() != od {
                    return Err((
                        "terminal_output_dim".into(),
                        format!("terminal {idx} has output dim {} but the tree's terminals have {}", aff.bias.len(), od),
                    ));
                }
            }
        } else if aff.bias.len() != 1 {
            return Err(("decision_rows".into(), format!("decision {idx} has {} rows (K=2 allows 1)", aff.bias.len())));
        }
    }
    if parentless.len() != 1 || parentless[0] != t.get_root_idx() {
        return Err(("root".into(), format!("parent-less nodes {parentless:?}, root {}", t.get_root_idx())));
    }
    let cap = stored.len() + 8;
    let reach = guarded(|| t.dfs_iter().take(cap).map(|d| d.index).collect::<Vec<_>>())
        .map_err(|p| ("traversal_panic".to_string(), panic_site(&p)))?;
    let reach_set: BTreeSet<usize> = reach.iter().copied().collect();
    if reach.len() != reach_set.len() || reach_set != stored {
        return Err(("unreachable_nodes".into(), format!("stored {} reachable {}", stored.len(), reach_set.len())));
    }
    if let Some(ls) = leafset {
        for (idx, node) in t.node_iter() {
            if node.isleaf {
                let f = AffQ::from_aff(&node.value.aff).map_err(|e| ("non_finite_coefficient".to_string(), e))?;
                if !ls.contains(&f) {
                    return Err((
                        "terminal_holds_foreign_function".into(),
                        format!(
                            "terminal {idx} holds a {}x{} function that is none of the terminal functions the operation can produce",
                            f.outdim(),
                            f.indim
                        ),
                    ));
                }
            }
        }
    }
    Ok(())
}

/// Reported (closed) path polytope of every node, root first: label 1 keeps the row, label 0 negates it.
pub fn node_paths(tree: &AffTree<2>) -> BTreeMap<usize, Vec<Row>> {
    let t = &tree.tree;
    let mut out = BTreeMap::new();
    let mut stack: Vec<(usize, Vec<Row>)> = vec![(t.get_root_idx(), Vec::new())];
    while let Some((idx, rows)) = stack.pop() {
        let node = t.tree_node(idx).expect("well-formed tree");
        if !node.isleaf {
            let a: Vec<Q> = node.value.aff.mat.row(0).iter().map(|v| Q::from_f64(*v)).collect();
            let b = Q::from_f64(node.value.aff.bias[0]);
            let pred = Row { a, b };
            for (label, c) in node.children.iter().enumerate() {
                if let Some(c) = c {
                    let mut r = rows.clone();
                    r.push(if label == 1 { pred.clone() } else { pred.negated() });
                    stack.push((*c, r));
                }
            }
        }
        out.insert(idx, rows);
    }
    out
}

/// f64 rows of the reported path polytope of every node (bit-exact, as the library builds them),
/// plus the same rows after the library's own `normalize()` (Polytope::status normalizes the
/// rows before it calls the backend since the fix of DESIGN.md 6.5; either form is accepted).
pub fn node_paths_bits(tree: &AffTree<2>) -> HashSet<Vec<u64>> {
    use affinitree::linalg::affine::Polytope;
    use ndarray::{Array1, Array2};
    let t = &tree.tree;
    let dim = tree.in_dim();
    let mut out = HashSet::new();
    let mut stack: Vec<(usize, Vec<f64>)> = vec![(t.get_root_idx(), Vec::new())];
    while let Some((idx, rows)) = stack.pop() {
        let node = t.tree_node(idx).expect("well-formed tree");
        if !node.isleaf {
            for (label, c) in node.children.iter().enumerate() {
                if let Some(c) = c {
                    let f = if label == 1 { 1.0 } else { -1.0 };
                    let mut r = rows.clone();
                    for v in node.value.aff.mat.row(0).iter() {
                        r.push(v * f);
                    }
                    r.push(node.value.aff.bias[0] * f);
                    stack.push((*c, r));
                }
            }
        }
        out.insert(rows.iter().map(|v| v.to_bits()).collect::<Vec<u64>>());
        let n = if dim + 1 > 0 { rows.len() / (dim + 1) } else { 0 };
        if n > 0 && rows.iter().all(|v| v.is_finite()) {
            let mut m = Array2::<f64>::zeros((n, dim));
            let mut b = Array1::<f64>::zeros(n);
            for i in 0..n {
                for j in 0..dim {
                    m[[i, j]] = rows[i * (dim + 1) + j];
                }
                b[i] = rows[i * (dim + 1) + dim];
            }
            if let Ok(p) = guarded(|| Polytope::from_mats(m, b).normalize()) {
                let mut key = Vec::with_capacity(rows.len());
                for i in 0..n {
                    for j in 0..dim {
                        key.push(p.mat[[i, j]].to_bits());
                    }
                    key.push(p.bias[i].to_bits());
                }
                out.insert(key);
            }
        }
    }
    out
}

#[derive(Default, Debug, Clone)]
pub struct CacheStats {
    pub witness_nodes: u64,
    pub witnesses: u64,
    pub infeasible_nodes: u64,
    pub feasible_nodes: u64,
    pub indeterminate_nodes: u64,
    /// witnesses that are inside only thanks to the tolerance allowance
    pub witnesses_in_tolerance_band: u64,
}

/// The reported path polytope of a node as the library builds it (f64 rows, label 0 negated).
pub fn path_polytope_f64(tree: &AffTree<2>, idx: usize) -> Option<affinitree::linalg::affine::Polytope> {
    use affinitree::linalg::affine::Polytope;
    use ndarray::{Array1, Array2};
    let path = tree.tree.path_to_node(idx).ok()?;
    if path.is_empty() {
        return None;
    }
    let dim = tree.in_dim();
    let mut m = Array2::<f64>::zeros((path.len(), dim));
    let mut b = Array1::<f64>::zeros(path.len());
    for (i, (n, label)) in path.iter().enumerate() {
        let node = tree.tree.tree_node(*n).ok()?;
        if node.value.aff.bias.len() != 1 || node.value.aff.mat.ncols() != dim {
            return None;
        }
        let f = if *label == 1 { 1.0 } else { -1.0 };
        for j in 0..dim {
            m[[i, j]] = node.value.aff.mat[[0, j]] * f;
        }
        b[i] = node.value.aff.bias[0] * f;
    }
    if m.iter().chain(b.iter()).any(|v| !v.is_finite()) {
        return None;
    }
    Some(Polytope::from_mats(m, b))
}

/// Containment with the allowance the library's own f64 `contains` has:
/// b - a.w >= -(1e-8 + 2^-50 (|b| + sum |a_j w_j|)).  Returns (inside, strictly_inside).
pub fn contains_with_allowance(row: &Row, w: &[Q]) -> (bool, bool) {
    let slack = row.slack(w);
    if !slack.is_neg() {
        return (true, true);
    }
    let mut mag = row.b.abs();
    for (a, x) in row.a.iter().zip(w) {
        mag = mag.add(&a.mul(x).abs());
    }
    let eps = Q::from_f64(2f64.powi(-50));
    let allow = Q::ratio(1, 100_000_000).add(&eps.mul(&mag));
    (slack >= allow.neg(), false)
}

/// C05: every stored witness lies in its node's reported path polytope; no node marked
/// Infeasible has a FAT region.
pub fn check_caches(tree: &AffTree<2>, fat_box: Option<f64>) -> Result<CacheStats, Fail> {
    let paths = node_paths(tree);
    let mut st = CacheStats::default();
    let in_dim = tree.in_dim();
    for (idx, node) in tree.tree.node_iter() {
        let rows = &paths[&idx];
        match &node.value.state {
            NodeState::Indeterminate => st.indeterminate_nodes += 1,
            NodeState::Feasible => st.feasible_nodes += 1,
            NodeState::Infeasible => {
                st.infeasible_nodes += 1;
                let w = match fat_box {
                    Some(bd) => {
                        let mut r = rows.clone();
                        r.extend(crate::model::box_rows(in_dim, bd));
                        width(in_dim, &r)
                    }
                    None => width(in_dim, rows),
                };
                if w.class() == Class::Fat {
                    return Err((
                        "infeasible_mark_on_fat_region".into(),
                        format!("node {idx} is marked Infeasible but its path region has l1-width {} (interior point {:?})", w.rho.to_f64(), w.center.iter().map(|q| q.to_f64()).collect::<Vec<_>>()),
                    ));
                }
            }
            NodeState::FeasibleWitness(ws) => {
                st.witness_nodes += 1;
                if ws.is_empty() {
                    return Err(("empty_witness_list".into(), format!("node {idx}")));
                }
                for w in ws {
                    st.witnesses += 1;
                    if w.len() != in_dim {
                        return Err((
                            "witness_dimension".into(),
                            format!("node {idx}: witness of length {} in a tree of input dim {}", w.len(), in_dim),
                        ));
                    }
                    if w.iter().any(|v| !v.is_finite()) {
                        return Err(("witness_not_finite".into(), format!("node {idx}: witness {:?}", w.to_vec())));
                    }
                    let wq: Vec<Q> = w.iter().map(|v| Q::from_f64(*v)).collect();
                    let mut band = false;
                    for (k, row) in rows.iter().enumerate() {
                        let (inside, strict) = contains_with_allowance(row, &wq);
                        if !inside {
                            return Err((
                                "witness_outside_path_polytope".into(),
                                format!(
                                    "node {idx}: witness {:?} violates path condition #{k} (a={:?} b={}) by {}",
                                    w.to_vec(),
                                    row.a.iter().map(|q| q.to_f64()).collect::<Vec<_>>(),
                                    row.b.to_f64(),
                                    row.slack(&wq).neg().to_f64()
                                ),
                            ));
                        }
                        if !strict {
                            band = true;
                        }
                    }
                    if band {
                        st.witnesses_in_tolerance_band += 1;
                    }
                    // the documented tolerance is the one of the library's own `contains`: a cached
                    // witness that `contains` rejects for its own path polytope is unsound by the
                    // library's standard, whatever exact arithmetic says about rounding
                    if !rows.is_empty() {
                        if let Some(poly) = path_polytope_f64(tree, idx) {
                            if !poly.contains(w) {
                                return Err((
                                    "witness_rejected_by_contains".into(),
                                    format!("node {idx}: Polytope::contains rejects the cached witness {:?} for the node's own path polytope", w.to_vec()),
                                ));
                            }
                        }
                    }
                }
            }
        }
    }
    Ok(st)
}

/// Everything that must not change when elimination is run a second time.
pub fn full_signature(tree: &AffTree<2>) -> Vec<(usize, Option<usize>, [Option<usize>; 2], bool, Vec<u64>, u8)> {
    tree.tree
        .node_iter()
        .map(|(idx, n)| {
            let mut bits: Vec<u64> = n.value.aff.mat.iter().map(|v| v.to_bits()).collect();
            bits.push(u64::MAX);
            bits.extend(n.value.aff.bias.iter().map(|v| v.to_bits()));
            let sk = match n.value.state {
                NodeState::Indeterminate => 0,
                NodeState::Infeasible => 1,
                NodeState::Feasible => 2,
                NodeState::FeasibleWitness(_) => 3,
            };
            (idx, n.parent, n.children, n.isleaf, bits, sk)
        })
        .collect()
}

/// Hash of (shape, node kind, state kind) in DFS order: the "state" measure of the evidence.
pub fn state_hash(tree: &AffTree<2>) -> u64 {
    fn rec(tree: &AffTree<2>, idx: usize, h: &mut Fnv, depth: usize) {
        if depth > 5000 {
            return;
        }
        let Ok(n) = tree.tree.tree_node(idx) else { return };
        h.byte(if n.isleaf { b'T' } else { b'D' });
        h.byte(match n.value.state {
            NodeState::Indeterminate => b'?',
            NodeState::Infeasible => b'-',
            NodeState::Feasible => b'+',
            NodeState::FeasibleWitness(_) => b'w',
        });
        for c in n.children.iter() {
            match c {
                Some(c) => {
                    h.byte(b'(');
                    rec(tree, *c, h, depth + 1);
                    h.byte(b')');
                }
                None => h.byte(b'.'),
            }
        }
    }
    let mut h = Fnv::new();
    h.u64(tree.in_dim() as u64);
    rec(tree, tree.tree.get_root_idx(), &mut h, 0);
    h.finish()
}

#[derive(Default, Debug, Clone)]
pub struct C06Stats {
    pub checked: u64,
    pub skipped_precondition: u64,
    pub nodes_examined: u64,
    pub thin_nodes_kept: u64,
}

/// C06 (a),(b) on the tree after elimination. `check_single_branch`: the pre-tree had both
/// branches at every decision below the root.
pub fn check_effective(tree: &AffTree<2>, check_single_branch: bool, st: &mut C06Stats) -> Result<(), Fail> {
    let paths = node_paths(tree);
    let root = tree.tree.get_root_idx();
    let in_dim = tree.in_dim();
    let mut exempt: BTreeSet<usize> = BTreeSet::new();
    let mut stack: Vec<(usize, bool)> = vec![(root, false)];
    while let Some((idx, ex)) = stack.pop() {
        if ex {
            exempt.insert(idx);
        }
        if let Ok(n) = tree.tree.tree_node(idx) {
            let single = n.children.iter().flatten().count() == 1;
            for c in n.children.iter().flatten() {
                stack.push((*c, ex || single));
            }
        }
    }
    for (idx, node) in tree.tree.node_iter() {
        if idx == root {
            continue;
        }
        // An only child - and everything below it - is exempt: on a decision that has (or is left
        // with) a single branch the library keeps that branch with its whole subtree even if it is
        // infeasible (a decision must not lose all its children), and C06 speaks about trees whose
        // decisions have both branches. (A decision that *loses* a branch is caught by the
        // single-branch clause below.)
        if exempt.contains(&idx) {
            continue;
        }
        st.nodes_examined += 1;
        let w = width(in_dim, &paths[&idx]);
        match w.class() {
            Class::Empty => {
                return Err((
                    "empty_region_kept".into(),
                    format!(
                        "node {idx} survives elimination although its path region is empty (l1-width {})",
                        if w.trivially_empty { -1.0 } else { w.rho.to_f64() }
                    ),
                ));
            }
            Class::Thin => st.thin_nodes_kept += 1,
            Class::Fat => {}
        }
        if check_single_branch && !node.isleaf {
            let n = node.children.iter().flatten().count();
            if n == 1 {
                return Err(("single_branch_decision_kept".into(), format!("decision {idx} below the root is left with one branch")));
            }
        }
    }
    Ok(())
}

#[derive(Default, Debug, Clone)]
pub struct AuditStats {
    pub calls: u64,
    pub real_infeasible: u64,
    pub real_optimal: u64,
    pub real_other: u64,
    pub exact_empty: u64,
    pub exact_thin: u64,
    pub exact_fat: u64,
    /// backend said Infeasible on a FAT polytope, or Optimal on an EMPTY one
    pub backend_disagreements: u64,
    /// backend said Optimal with a point outside the library's 1e-8 tolerance (sent to the repair)
    pub backend_points_outside_tolerance: u64,
    pub path_polytopes_matched: u64,
}

/// Referees the real backend's answers with the exact LP and, when `pre_paths` is given
/// (elimination steps), demands that every polytope handed to the backend is row for row the
/// reported path polytope of a node of the pre-step tree.
pub fn audit(records: &[LpRecord], pre_paths: Option<&HashSet<Vec<u64>>>, st: &mut AuditStats, fat_box: Option<f64>) -> Result<(), Fail> {
    for r in records {
        if !r.zero_objective {
            continue;
        }
        st.calls += 1;
        let dim = r.mat.first().map(|x| x.len()).unwrap_or(0);
        let finite = r.mat.iter().flatten().chain(r.bias.iter()).all(|v| v.is_finite());
        if finite && dim > 0 {
            let rows = rows_of(&r.mat, &r.bias);
            let w = width(dim, &rows);
            let class = w.class();
            match class {
                Class::Empty => st.exact_empty += 1,
                Class::Thin => st.exact_thin += 1,
                Class::Fat => st.exact_fat += 1,
            }
            match r.real {
                StatusKind::Infeasible => {
                    st.real_infeasible += 1;
                    // inside a box: rows that are opposite only up to rounding (e.g. after the
                    // library's normalize) open wedges 1e16 away that are not feasible in any useful sense
                    let fat = class == Class::Fat && {
                        let mut rr = rows.clone();
                        rr.extend(crate::model::box_rows(dim, fat_box.unwrap_or(1e6)));
                        width(dim, &rr).class() == Class::Fat
                    };
                    if fat {
                        st.backend_disagreements += 1;
                        if std::env::var("VERIF_AUDIT_DUMP").is_ok() {
                            eprintln!(
                                "AUDIT backend says Infeasible, exact l1-width {} centre {:?}\n  mat={:?}\n  bias={:?}",
                                w.rho.to_f64(),
                                w.center.iter().map(|q| q.to_f64()).collect::<Vec<_>>(),
                                r.mat,
                                r.bias
                            );
                        }
                    }
                }
                StatusKind::Optimal => {
                    st.real_optimal += 1;
                    let bad = class == Class::Empty;
                    if let Some(wit) = &r.real_witness {
                        if wit.iter().all(|v| v.is_finite()) {
                            let wq: Vec<Q> = wit.iter().map(|v| Q::from_f64(*v)).collect();
                            if rows.iter().any(|row| !contains_with_allowance(row, &wq).0) {
                                st.backend_points_outside_tolerance += 1;
                            }
                        } else {
                            st.backend_points_outside_tolerance += 1;
                        }
                    }
                    if bad {
                        st.backend_disagreements += 1;
                        if std::env::var("VERIF_AUDIT_DUMP").is_ok() {
                            eprintln!(
                                "AUDIT backend says Optimal({:?}), exact class {:?} l1-width {}\n  mat={:?}\n  bias={:?}",
                                r.real_witness,
                                class,
                                w.rho.to_f64(),
                                r.mat,
                                r.bias
                            );
                        }
                    }
                }
                _ => st.real_other += 1,
            }
        }
        if let Some(paths) = pre_paths {
            let mut key: Vec<u64> = Vec::with_capacity(r.bias.len() * (dim + 1));
            for (row, b) in r.mat.iter().zip(&r.bias) {
                for v in row {
                    key.push(v.to_bits());
                }
                key.push(b.to_bits());
            }
            if !paths.contains(&key) {
                return Err((
                    "lp_polytope_is_no_path_polytope".into(),
                    format!(
                        "LP call #{}: the {}-row polytope handed to the backend is not the path polytope of any node of the tree being pruned (stale or mis-popped predicate stack)",
                        r.index,
                        r.bias.len()
                    ),
                ));
            }
            st.path_polytopes_matched += 1;
        }
    }
    Ok(())
}

/// Exact check that `points` (columns as returned by mirror_points) lie in the polytope.
pub fn points_inside(mat: &[Vec<f64>], bias: &[f64], point: &[f64]) -> bool {
    if point.iter().any(|v| !v.is_finite()) {
        return false;
    }
    let rows = rows_of(mat, bias);
    let p: Vec<Q> = point.iter().map(|v| Q::from_f64(*v)).collect();
    rows.iter().all(|r| contains_with_allowance(r, &p).0)
}

#[allow(dead_code)]
pub fn eval_exact(rows: &[Row], x: &[Q]) -> bool {
    rows.iter().all(|r| dot(&r.a, x) <= r.b)
}
