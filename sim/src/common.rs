//! Shared plumbing: panic capture, violations, the parallel run loop, hashing.

use std::cell::RefCell;
use std::panic::{self, AssertUnwindSafe};
use std::sync::atomic::{AtomicBool, AtomicU64, Ordering};
use std::sync::{Mutex, Once};
use std::time::{Duration, Instant};

use serde::{Deserialize, Serialize};

thread_local! {
    static LAST_PANIC: RefCell<Option<String>> = const { RefCell::new(None) };
    static HEARTBEAT: RefCell<Option<std::sync::Arc<Mutex<Instant>>>> = const { RefCell::new(None) };
}

/// Tells the watchdog that this thread is making progress (a C11 scenario is thousands of
/// executions; the per-run timeout is meant per execution).
pub fn heartbeat() {
    HEARTBEAT.with(|h| {
        if let Some(m) = &*h.borrow() {
            *m.lock().unwrap() = Instant::now();
        }
    });
}

static HOOK: Once = Once::new();

/// Installs a silent panic hook that remembers message and location per thread.
pub fn install_panic_hook() {
    HOOK.call_once(|| {
        panic::set_hook(Box::new(|info| {
            let msg = if let Some(s) = info.payload().downcast_ref::<&str>() {
                (*s).to_string()
            } else if let Some(s) = info.payload().downcast_ref::<String>() {
                s.clone()
            } else {
                "<non-string panic payload>".to_string()
            };
            let loc = info
                .location()
                .map(|l| format!("{}:{}", l.file(), l.line()))
                .unwrap_or_else(|| "<unknown>".to_string());
            LAST_PANIC.with(|p| *p.borrow_mut() = Some(format!("{loc}: {msg}")));
        }));
    });
}

/// Runs `f`, turning a panic into `Err("file:line: message")`.
pub fn guarded<T>(f: impl FnOnce() -> T) -> Result<T, String> {
    LAST_PANIC.with(|p| *p.borrow_mut() = None);
    match panic::catch_unwind(AssertUnwindSafe(f)) {
        Ok(v) => Ok(v),
        Err(_) => Err(LAST_PANIC
            .with(|p| p.borrow_mut().take())
            .unwrap_or_else(|| "<panic without message>".to_string())),
    }
}

/// Shortens "…/src/linalg/affine.rs:738: message" to something stable enough to classify.
pub fn panic_site(msg: &str) -> String {
    // keep "file:line" but strip the directory prefix up to the crate's src/
    let head = msg.split(": ").next().unwrap_or(msg);
    let short = match head.rfind("/src/") {
        Some(p) => &head[p + 1..],
        None => head,
    };
    short.to_string()
}

#[derive(Clone, Debug, Serialize, Deserialize, PartialEq)]
pub struct Violation {
    pub property: String,
    /// which clause of the property failed, e.g. "function_changed", "panic", "orphan_after_err"
    pub class: String,
    /// the operation during which it became observable
    pub site: String,
    /// index of the history step
    pub step: usize,
    /// human readable, deterministic
    pub detail: String,
}

impl Violation {
    pub fn key(&self) -> String {
        format!("{}|{}|{}", self.property, self.class, self.site)
    }
}

/// FNV-1a, stable across runs and platforms (std's hasher is not guaranteed to be).
#[derive(Clone, Copy)]
pub struct Fnv(pub u64);

impl Default for Fnv {
    fn default() -> Self {
        Fnv(0xcbf2_9ce4_8422_2325)
    }
}

impl Fnv {
    pub fn new() -> Fnv {
        Fnv::default()
    }
    pub fn byte(&mut self, b: u8) {
        self.0 ^= b as u64;
        self.0 = self.0.wrapping_mul(0x0000_0100_0000_01b3);
    }
    pub fn u64(&mut self, v: u64) {
        for b in v.to_le_bytes() {
            self.byte(b);
        }
    }
    pub fn str(&mut self, s: &str) {
        for b in s.as_bytes() {
            self.byte(*b);
        }
        self.byte(0xff);
    }
    pub fn finish(&self) -> u64 {
        self.0
    }
}

/// Budget / parallelism of one batch.
#[derive(Clone, Debug)]
pub struct Batch {
    pub runs: u64,
    pub threads: usize,
    /// safety stop; reported in the evidence if it ever cuts a batch short
    pub max_wall: Duration,
    /// a single run taking longer than this is reported as a hang
    pub run_timeout: Duration,
}

pub struct BatchOutcome<A> {
    pub accs: Vec<A>,
    pub runs_done: u64,
    pub cut_short: bool,
    pub wall: Duration,
    /// run indices that exceeded run_timeout (the process should not trust further results)
    pub hung: Vec<u64>,
}

/// Executes run indices 0..runs on `threads` threads. `f(run_index, acc)` must be a pure
/// function of run_index (and the code under test); accumulators must merge commutatively.
pub fn run_batch<A, F>(batch: &Batch, make_acc: impl Fn() -> A + Sync, f: F) -> BatchOutcome<A>
where
    A: Send,
    F: Fn(u64, &mut A) + Sync,
{
    let next = AtomicU64::new(0);
    let stop = AtomicBool::new(false);
    let start = Instant::now();
    let current: Vec<AtomicU64> = (0..batch.threads).map(|_| AtomicU64::new(u64::MAX)).collect();
    let started_at: Vec<std::sync::Arc<Mutex<Instant>>> = (0..batch.threads).map(|_| std::sync::Arc::new(Mutex::new(start))).collect();
    let done = AtomicU64::new(0);
    let finished_threads = AtomicU64::new(0);
    let hung: Mutex<Vec<u64>> = Mutex::new(Vec::new());

    let accs: Vec<A> = std::thread::scope(|scope| {
        let mut handles = Vec::new();
        for tid in 0..batch.threads {
            let next = &next;
            let stop = &stop;
            let f = &f;
            let make_acc = &make_acc;
            let current = &current;
            let started_at = &started_at;
            let done = &done;
            let finished_threads = &finished_threads;
            handles.push(
                std::thread::Builder::new()
                    .stack_size(256 << 20)
                    .spawn_scoped(scope, move || {
                        let mut acc = make_acc();
                        HEARTBEAT.with(|h| *h.borrow_mut() = Some(started_at[tid].clone()));
                        loop {
                            if stop.load(Ordering::Relaxed) {
                                break;
                            }
                            let idx = next.fetch_add(1, Ordering::Relaxed);
                            if idx >= batch.runs {
                                break;
                            }
                            *started_at[tid].lock().unwrap() = Instant::now();
                            current[tid].store(idx, Ordering::Relaxed);
                            f(idx, &mut acc);
                            current[tid].store(u64::MAX, Ordering::Relaxed);
                            done.fetch_add(1, Ordering::Relaxed);
                        }
                        finished_threads.fetch_add(1, Ordering::Relaxed);
                        acc
                    })
                    .expect("spawn worker"),
            );
        }
        // watchdog on the coordinating thread
        loop {
            std::thread::sleep(Duration::from_millis(20));
            if finished_threads.load(Ordering::Relaxed) as usize == batch.threads {
                break;
            }
            if start.elapsed() > batch.max_wall {
                stop.store(true, Ordering::Relaxed);
            }
            for tid in 0..batch.threads {
                let idx = current[tid].load(Ordering::Relaxed);
                if idx != u64::MAX {
                    let since = started_at[tid].lock().unwrap().elapsed();
                    if since > batch.run_timeout {
                        // cannot kill a thread: report and let the supervisor deal with it
                        println!("HANG run_index={idx}");
                        hung.lock().unwrap().push(idx);
                        use std::io::Write;
                        let _ = std::io::stdout().flush();
                        std::process::exit(3);
                    }
                }
            }
        }
        handles.into_iter().map(|h| h.join().expect("worker thread")).collect()
    });

    let runs_done = done.load(Ordering::Relaxed);
    BatchOutcome {
        accs,
        runs_done,
        cut_short: runs_done < batch.runs,
        wall: start.elapsed(),
        hung: hung.into_inner().unwrap(),
    }
}

pub fn env_u64(name: &str) -> Option<u64> {
    std::env::var(name).ok().and_then(|v| v.trim().parse::<u64>().ok())
}

// ---------------------------------------------------------------------------
// Event log of a run: hashed always, printed on request (`affsim trace`). Logging never
// draws from a PRNG and never reads a clock.
// ---------------------------------------------------------------------------

thread_local! {
    static EVENTS: RefCell<(Fnv, bool, u64)> = RefCell::new((Fnv::new(), false, 0));
}

pub fn events_reset(print: bool) {
    EVENTS.with(|e| *e.borrow_mut() = (Fnv::new(), print, 0));
}

pub fn event(s: &str) {
    EVENTS.with(|e| {
        let mut e = e.borrow_mut();
        e.0.str(s);
        e.2 += 1;
        if e.1 {
            println!("event {:>5}: {}", e.2, s);
        }
    });
}

/// (digest, number of events) of the current run's log
pub fn events_digest() -> (u64, u64) {
    EVENTS.with(|e| {
        let e = e.borrow();
        (e.0.finish(), e.2)
    })
}

// ---------------------------------------------------------------------------
// Step-level breadcrumb: when a single run is re-executed after a worker death, the literal
// scenario is written to disk before every step, so that an abort leaves a replay file behind.
// ---------------------------------------------------------------------------

thread_local! {
    static STEP_CRUMB: RefCell<Option<std::path::PathBuf>> = const { RefCell::new(None) };
}

pub fn set_step_crumb(path: Option<std::path::PathBuf>) {
    STEP_CRUMB.with(|c| *c.borrow_mut() = path);
}

pub fn step_crumb(make: impl FnOnce() -> String) {
    STEP_CRUMB.with(|c| {
        if let Some(p) = &*c.borrow() {
            let _ = std::fs::write(p, make());
        }
    });
}
