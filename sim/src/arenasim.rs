//! C12: operation histories (valid and failing calls) on `Tree<u32, K>` against a reference arena.

use std::collections::{BTreeMap, BTreeSet};

use affinitree::tree::graph::{NodeError, Tree};
use serde::{Deserialize, Serialize};

use crate::common::{guarded, panic_site, Fnv, Violation};
use crate::prng::Prng;

#[derive(Clone, Debug, Serialize, Deserialize, PartialEq)]
#[serde(tag = "op")]
pub enum ArenaOp {
    AddChild { parent: usize, label: usize, value: u32 },
    TryRemoveChild { parent: usize, label: usize },
    RemoveChild { parent: usize, label: usize },
    RemoveAllDescendants { node: usize },
    Merge { parent: usize, label: usize },
    UpdateNode { idx: usize, value: u32 },
    /// replace the tree by its clone: every index, value, link and flag must survive
    CloneSelf,
    /// add_root on a non-empty tree: the documented exception - the former tree stays stored but is
    /// no longer reachable; everything else must keep holding
    AddRoot { value: u32 },
}

impl ArenaOp {
    pub fn name(&self) -> &'static str {
        match self {
            ArenaOp::AddChild { .. } => "add_child_node",
            ArenaOp::TryRemoveChild { .. } => "try_remove_child",
            ArenaOp::RemoveChild { .. } => "remove_child",
            ArenaOp::RemoveAllDescendants { .. } => "remove_all_descendants",
            ArenaOp::Merge { .. } => "merge_child_with_parent",
            ArenaOp::UpdateNode { .. } => "update_node",
            ArenaOp::CloneSelf => "clone",
            ArenaOp::AddRoot { .. } => "add_root",
        }
    }
}

#[derive(Clone, Debug, PartialEq, Eq)]
struct MNode {
    value: u32,
    parent: Option<usize>,
    children: Vec<Option<usize>>,
}

/// The reference arena: a map, nothing clever.
#[derive(Clone, Debug, PartialEq, Eq)]
struct Model {
    k: usize,
    root: usize,
    nodes: BTreeMap<usize, MNode>,
}

/// What a call is expected to do / did.
#[derive(Clone, Debug, PartialEq, Eq)]
pub enum Outcome {
    OkIndex(usize),
    OkValue(u32),
    OkCount(i64),
    /// merge returns the removed node
    OkNode { value: u32, parent: Option<usize>, children: Vec<Option<usize>>, isleaf: bool },
    Err(&'static str),
    Panic,
}

impl Outcome {
    fn kind(&self) -> String {
        match self {
            Outcome::OkIndex(_) | Outcome::OkValue(_) | Outcome::OkCount(_) | Outcome::OkNode { .. } => {
                "ok".into()
            }
            Outcome::Err(e) => format!("err:{e}"),
            Outcome::Panic => "panic".into(),
        }
    }
}

fn err_name(e: &NodeError) -> &'static str {
    match e {
        NodeError::InvalidIndex(_) => "InvalidIndex",
        NodeError::MissingChild { .. } => "MissingChild",
        NodeError::MissingParent { .. } => "MissingParent",
        NodeError::NodeExists { .. } => "NodeExists",
        NodeError::ChildExists { .. } => "ChildExists",
        NodeError::RootNode => "RootNode",
        NodeError::NodeNotFound => "NodeNotFound",
    }
}

impl Model {
    fn new(k: usize, root: usize, value: u32) -> Model {
        let mut nodes = BTreeMap::new();
        nodes.insert(
            root,
            MNode {
                value,
                parent: None,
                children: vec![None; k],
            },
        );
        Model { k, root, nodes }
    }

    fn subtree(&self, idx: usize) -> Vec<usize> {
        let mut out = Vec::new();
        let mut stack = vec![idx];
        while let Some(n) = stack.pop() {
            out.push(n);
            for c in self.nodes[&n].children.iter().flatten() {
                stack.push(*c);
            }
        }
        out
    }

    /// Expected outcome of `op`; `Ok` outcomes that allocate take the index the real call chose.
    /// Applies the effect to the model when the call is expected to succeed.
    fn apply(&mut self, op: &ArenaOp, real_index: Option<usize>) -> Outcome {
        let k = self.k;
        match *op {
            ArenaOp::AddChild { parent, label, value } => {
                if !self.nodes.contains_key(&parent) {
                    return Outcome::Err("InvalidIndex");
                }
                if label >= k {
                    return Outcome::Panic;
                }
                if self.nodes[&parent].children[label].is_some() {
                    return Outcome::Err("ChildExists");
                }
                // the model does not predict slab's choice; it takes the real index if it is free
                let idx = match real_index {
                    Some(i) if !self.nodes.contains_key(&i) => i,
                    // the real call failed or returned a used index: report what was expected
                    _ => return Outcome::OkIndex(usize::MAX),
                };
                self.nodes.insert(
                    idx,
                    MNode {
                        value,
                        parent: Some(parent),
                        children: vec![None; k],
                    },
                );
                self.nodes.get_mut(&parent).unwrap().children[label] = Some(idx);
                Outcome::OkIndex(idx)
            }
            ArenaOp::TryRemoveChild { parent, label } | ArenaOp::RemoveChild { parent, label } => {
                let strict = matches!(op, ArenaOp::RemoveChild { .. });
                if !self.nodes.contains_key(&parent) {
                    return if strict { Outcome::Panic } else { Outcome::Err("InvalidIndex") };
                }
                if label >= k {
                    return Outcome::Panic;
                }
                let Some(child) = self.nodes[&parent].children[label] else {
                    return if strict { Outcome::Panic } else { Outcome::Err("MissingChild") };
                };
                let value = self.nodes[&child].value;
                for n in self.subtree(child) {
                    self.nodes.remove(&n);
                }
                self.nodes.get_mut(&parent).unwrap().children[label] = None;
                Outcome::OkValue(value)
            }
            ArenaOp::RemoveAllDescendants { node } => {
                if !self.nodes.contains_key(&node) {
                    return Outcome::Err("InvalidIndex");
                }
                let sub = self.subtree(node);
                let count = sub.len() as i64 - 1;
                for n in sub {
                    if n != node {
                        self.nodes.remove(&n);
                    }
                }
                for c in self.nodes.get_mut(&node).unwrap().children.iter_mut() {
                    *c = None;
                }
                Outcome::OkCount(count)
            }
            ArenaOp::Merge { parent, label } => {
                // documented: Err when parent is not part of the tree or has no such child;
                // implemented: asserts exactly one child first (panics otherwise, also on a bad index)
                if !self.nodes.contains_key(&parent) {
                    return Outcome::Panic;
                }
                let n_children = self.nodes[&parent].children.iter().flatten().count();
                if n_children != 1 {
                    return Outcome::Panic;
                }
                if parent == self.root {
                    return Outcome::Err("RootNode");
                }
                if label >= k {
                    return Outcome::Panic;
                }
                let Some(child) = self.nodes[&parent].children[label] else {
                    return Outcome::Err("MissingChild");
                };
                if self.nodes[&parent].parent.is_none() {
                    // the root of a former tree that add_root detached
                    return Outcome::Err("MissingParent");
                }
                let removed = self.nodes.remove(&parent).unwrap();
                let gp = removed.parent.expect("non-root node has a parent");
                let slot = self.nodes[&gp]
                    .children
                    .iter()
                    .position(|c| *c == Some(parent))
                    .expect("model: parent is a child of its parent");
                self.nodes.get_mut(&gp).unwrap().children[slot] = Some(child);
                self.nodes.get_mut(&child).unwrap().parent = Some(gp);
                Outcome::OkNode {
                    value: removed.value,
                    parent: removed.parent,
                    children: removed.children,
                    isleaf: false,
                }
            }
            ArenaOp::CloneSelf => Outcome::OkCount(self.nodes.len() as i64),
            ArenaOp::AddRoot { value } => {
                let idx = match real_index {
                    Some(i) if !self.nodes.contains_key(&i) => i,
                    _ => return Outcome::OkIndex(usize::MAX),
                };
                self.nodes.insert(idx, MNode { value, parent: None, children: vec![None; k] });
                self.root = idx;
                Outcome::OkIndex(idx)
            }
            ArenaOp::UpdateNode { idx, value } => {
                let Some(n) = self.nodes.get_mut(&idx) else {
                    return Outcome::Err("InvalidIndex");
                };
                let old = n.value;
                n.value = value;
                Outcome::OkValue(old)
            }
        }
    }
}

fn apply_real<const K: usize>(tree: &mut Tree<u32, K>, op: &ArenaOp) -> Outcome {
    let r = guarded(|| match *op {
        ArenaOp::AddChild { parent, label, value } => match tree.add_child_node(parent, label, value) {
            Ok(i) => Outcome::OkIndex(i),
            Err(e) => Outcome::Err(err_name(&e)),
        },
        ArenaOp::TryRemoveChild { parent, label } => match tree.try_remove_child(parent, label) {
            Ok(v) => Outcome::OkValue(v),
            Err(e) => Outcome::Err(err_name(&e)),
        },
        ArenaOp::RemoveChild { parent, label } => Outcome::OkValue(tree.remove_child(parent, label)),
        ArenaOp::RemoveAllDescendants { node } => match tree.remove_all_descendants(node) {
            Ok(c) => Outcome::OkCount(c as i64),
            Err(_) => Outcome::Err("InvalidIndex"),
        },
        ArenaOp::Merge { parent, label } => match tree.merge_child_with_parent(parent, label) {
            Ok(n) => Outcome::OkNode {
                value: n.value,
                parent: n.parent,
                children: n.children.to_vec(),
                isleaf: n.isleaf,
            },
            Err(e) => Outcome::Err(err_name(&e)),
        },
        ArenaOp::AddRoot { value } => Outcome::OkIndex(tree.add_root(value)),
        ArenaOp::CloneSelf => {
            let c = tree.clone();
            *tree = c;
            Outcome::OkCount(tree.len() as i64)
        }
        ArenaOp::UpdateNode { idx, value } => match tree.update_node(idx, value) {
            Ok(v) => Outcome::OkValue(v),
            Err(e) => Outcome::Err(err_name(&e)),
        },
    });
    match r {
        Ok(o) => o,
        Err(_) => Outcome::Panic,
    }
}

/// The arena as the public API shows it: index -> (value, parent, children, isleaf).
type View = BTreeMap<usize, (u32, Option<usize>, Vec<Option<usize>>, bool)>;

fn arena_view<const K: usize>(tree: &Tree<u32, K>) -> View {
    tree.node_iter()
        .map(|(i, n)| (i, (n.value, n.parent, n.children.to_vec(), n.isleaf)))
        .collect()
}

/// Structural invariants of C12 on the real tree alone. Returns (class, detail) of the first failure.
fn check_invariants<const K: usize>(
    tree: &Tree<u32, K>,
    detached_roots: &BTreeSet<usize>,
    expected_reachable: Option<&BTreeSet<usize>>,
) -> Result<(), (String, String)> {
    let view = arena_view(tree);
    let mut roots = Vec::new();
    for (idx, (_, parent, children, isleaf)) in &view {
        let n_children = children.iter().flatten().count();
        if *isleaf != (n_children == 0) {
            return Err((
                "leaf_flag".into(),
                format!("node {idx}: isleaf={isleaf} but {n_children} children"),
            ));
        }
        match parent {
            None => roots.push(*idx),
            Some(p) => match view.get(p) {
                None => return Err(("dangling_parent".into(), format!("node {idx}: parent {p} not stored"))),
                Some((_, _, pc, _)) => {
                    let cnt = pc.iter().filter(|c| **c == Some(*idx)).count();
                    if cnt != 1 {
                        return Err((
                            "links_not_mirrored".into(),
                            format!("node {idx}: parent {p} lists it {cnt} times"),
                        ));
                    }
                }
            },
        }
        for c in children.iter().flatten() {
            match view.get(c) {
                None => return Err(("dangling_child".into(), format!("node {idx}: child {c} not stored"))),
                Some((_, cp, _, _)) => {
                    if *cp != Some(*idx) {
                        return Err((
                            "links_not_mirrored".into(),
                            format!("node {idx}: child {c} has parent {cp:?}"),
                        ));
                    }
                }
            }
        }
    }
    // exactly one parent-less node, the root - plus the roots of former trees that add_root detached
    let live_roots: Vec<usize> = roots.iter().copied().filter(|r| !detached_roots.contains(r)).collect();
    if live_roots.len() != 1 || roots.len() != 1 + detached_roots.len() {
        return Err((
            if live_roots.is_empty() { "no_root".into() } else { "orphan".into() },
            format!("parent-less nodes: {roots:?} (former roots detached by add_root: {detached_roots:?})"),
        ));
    }
    let root_ok = guarded(|| tree.get_root_idx());
    match root_ok {
        Ok(r) if r == live_roots[0] => {}
        other => {
            return Err(("root_mismatch".into(), format!("get_root_idx={other:?}, parent-less={roots:?}")));
        }
    }
    // reachable view == stored view, len() == reachable count
    let cap = view.len() + K + 8;
    let reach = guarded(|| tree.dfs_iter().take(cap).map(|d| d.index).collect::<Vec<_>>());
    let reach = match reach {
        Ok(r) => r,
        Err(p) => return Err(("traversal_panic".into(), panic_site(&p))),
    };
    let reach_set: BTreeSet<usize> = reach.iter().copied().collect();
    let stored: BTreeSet<usize> = view.keys().copied().collect();
    // without add_root: every stored node is reachable; after add_root: exactly the nodes the
    // reference model says are reachable from the new root
    let want: &BTreeSet<usize> = expected_reachable.unwrap_or(&stored);
    if reach.len() != reach_set.len() || &reach_set != want {
        return Err((
            "unreachable_or_cyclic".into(),
            format!("dfs yields {} items / {} distinct, expected reachable {}, stored {}", reach.len(), reach_set.len(), want.len(), stored.len()),
        ));
    }
    if tree.len() != stored.len() || (expected_reachable.is_none() && tree.len() != reach_set.len()) {
        return Err(("len_mismatch".into(), format!("len()={} stored={} reachable={}", tree.len(), stored.len(), reach_set.len())));
    }
    // the library's own reachable-node counts must agree with what the traversal yields
    let counts = guarded(|| (tree.num_nodes(tree.get_root_idx()), tree.dfs_iter().count()));
    match counts {
        Ok((a, b)) if a == reach_set.len() && b == reach_set.len() => {}
        other => {
            return Err((
                "reachable_count_mismatch".into(),
                format!("num_nodes(root) / dfs_iter().count() = {other:?}, nodes actually reached {}", reach_set.len()),
            ));
        }
    }
    // parent(idx) must resolve for every non-root node (it panics on corrupted links)
    for idx in view.keys() {
        let r = guarded(|| tree.parent(*idx).map(|e| (e.source_idx, e.label)).ok());
        match r {
            Err(p) => return Err(("parent_panic".into(), format!("parent({idx}) panicked at {}", panic_site(&p)))),
            Ok(got) => {
                let want = view[idx].1;
                if got.map(|g| g.0) != want {
                    return Err(("parent_mismatch".into(), format!("parent({idx}) = {got:?}, stored {want:?}")));
                }
                if let Some((p, l)) = got {
                    if view[&p].2.get(l).copied().flatten() != Some(*idx) {
                        return Err(("parent_mismatch".into(), format!("parent({idx}) label {l} wrong")));
                    }
                }
            }
        }
    }
    Ok(())
}

fn model_view(model: &Model) -> View {
    model
        .nodes
        .iter()
        .map(|(i, n)| {
            let leaf = n.children.iter().all(|c| c.is_none());
            (*i, (n.value, n.parent, n.children.clone(), leaf))
        })
        .collect()
}

fn shape_hash(model: &Model) -> u64 {
    // canonical shape: DFS over labels, ignoring indices and values
    fn rec(m: &Model, n: usize, h: &mut Fnv) {
        h.byte(b'(');
        for c in &m.nodes[&n].children {
            match c {
                Some(c) => rec(m, *c, h),
                None => h.byte(b'.'),
            }
        }
        h.byte(b')');
    }
    let mut h = Fnv::new();
    h.u64(model.k as u64);
    rec(model, model.root, &mut h);
    h.finish()
}

#[derive(Clone, Debug, Default, Serialize, Deserialize)]
pub struct ArenaStats {
    pub histories: u64,
    pub ops: u64,
    pub ops_by_kind_outcome: BTreeMap<String, u64>,
    pub index_reuses: u64,
    pub max_nodes: usize,
    pub nontrivial_histories: u64,
    pub event_digest_sum: u64,
    #[serde(skip)]
    pub shapes: BTreeSet<u64>,
    #[serde(skip)]
    pub history_hashes: BTreeSet<u64>,
}

impl ArenaStats {
    pub fn merge(&mut self, o: ArenaStats) {
        self.histories += o.histories;
        self.ops += o.ops;
        for (k, v) in o.ops_by_kind_outcome {
            *self.ops_by_kind_outcome.entry(k).or_default() += v;
        }
        self.index_reuses += o.index_reuses;
        self.max_nodes = self.max_nodes.max(o.max_nodes);
        self.nontrivial_histories += o.nontrivial_histories;
        self.event_digest_sum = self.event_digest_sum.wrapping_add(o.event_digest_sum);
        self.shapes.extend(o.shapes);
        self.history_hashes.extend(o.history_hashes);
    }
}

#[derive(Clone, Debug, Serialize, Deserialize)]
pub struct ArenaReplay {
    pub property: String,
    pub simulator: String,
    pub seed: u64,
    pub run_index: u64,
    pub k: usize,
    pub root_value: u32,
    pub history: Vec<ArenaOp>,
    pub expected: Option<Violation>,
}

pub struct ArenaResult {
    pub violation: Option<Violation>,
    pub history: Vec<ArenaOp>,
}

/// Source of operations: generated online from the PRNG and the model state, or a literal list.
enum OpSource<'a> {
    Gen { rng: &'a mut Prng, len: usize, knobs: Knobs },
    Lit(&'a [ArenaOp]),
}

#[derive(Clone, Debug)]
struct Knobs {
    /// weights for the six op kinds
    weights: [usize; 6],
    /// per-mille of deliberately invalid node indices
    bad_index_pm: usize,
    /// per-mille of labels >= K
    bad_label_pm: usize,
    /// prefer occupied slots for add (to hit ChildExists) per-mille
    occupied_pm: usize,
    /// target size: above it removals get heavier
    soft_cap: usize,
    /// per-mille of add_root calls on the (non-empty) tree
    add_root_pm: usize,
}

fn gen_knobs(rng: &mut Prng) -> Knobs {
    let mut weights = [0usize; 6];
    // add, try_remove, remove, remove_desc, merge, update
    let base = [10, 4, 2, 2, 3, 1];
    for i in 0..6 {
        weights[i] = base[i] * (1 + rng.below(4));
    }
    Knobs {
        weights,
        bad_index_pm: *rng.pick(&[0, 30, 100, 250]),
        bad_label_pm: *rng.pick(&[0, 0, 10, 40]),
        occupied_pm: *rng.pick(&[50, 150, 400]),
        soft_cap: *rng.pick(&[4, 8, 16, 25]),
        add_root_pm: *rng.pick(&[0, 0, 0, 10, 30]),
    }
}

fn gen_op(rng: &mut Prng, model: &Model, freed: &[usize], next_value: &mut u32, knobs: &Knobs) -> ArenaOp {
    let k = model.k;
    let keys: Vec<usize> = model.nodes.keys().copied().collect();
    let pick_index = |rng: &mut Prng| -> usize {
        if rng.chance(knobs.bad_index_pm, 1000) {
            if !freed.is_empty() && rng.chance(2, 3) {
                // freed (and possibly re-used) index
                *rng.pick(freed)
            } else {
                keys.iter().max().unwrap() + 1 + rng.below(5)
            }
        } else {
            *rng.pick(&keys)
        }
    };
    let pick_label = |rng: &mut Prng| -> usize {
        if rng.chance(knobs.bad_label_pm, 1000) {
            k + rng.below(2)
        } else {
            rng.below(k)
        }
    };
    let mut weights = knobs.weights;
    if model.nodes.len() > knobs.soft_cap {
        weights[0] /= 4;
        weights[1] *= 3;
        weights[3] *= 2;
    }
    if weights.iter().all(|w| *w == 0) {
        weights[0] = 1;
    }
    if rng.chance(15, 1000) {
        return ArenaOp::CloneSelf;
    }
    if rng.chance(knobs.add_root_pm, 1000) {
        let value = *next_value;
        *next_value += 1;
        return ArenaOp::AddRoot { value };
    }
    match rng.weighted(&weights) {
        0 => {
            let value = *next_value;
            *next_value += 1;
            let parent = pick_index(rng);
            let mut label = pick_label(rng);
            if let Some(n) = model.nodes.get(&parent) {
                if label < k {
                    let want_occupied = rng.chance(knobs.occupied_pm, 1000);
                    let cand: Vec<usize> = (0..k).filter(|l| n.children[*l].is_some() == want_occupied).collect();
                    if !cand.is_empty() {
                        label = *rng.pick(&cand);
                    }
                }
            }
            ArenaOp::AddChild { parent, label, value }
        }
        w @ (1 | 2) => {
            let parent = pick_index(rng);
            let mut label = pick_label(rng);
            if let Some(n) = model.nodes.get(&parent) {
                // mostly existing children; strict remove_child rarely on a missing one
                let miss_pm = if w == 1 { 200 } else { 60 };
                if label < k && !rng.chance(miss_pm, 1000) {
                    let cand: Vec<usize> = (0..k).filter(|l| n.children[*l].is_some()).collect();
                    if !cand.is_empty() {
                        label = *rng.pick(&cand);
                    }
                }
            }
            if w == 1 {
                ArenaOp::TryRemoveChild { parent, label }
            } else {
                ArenaOp::RemoveChild { parent, label }
            }
        }
        3 => ArenaOp::RemoveAllDescendants { node: pick_index(rng) },
        4 => {
            // prefer nodes with exactly one child, sometimes anything
            let singles: Vec<usize> = model
                .nodes
                .iter()
                .filter(|(_, n)| n.children.iter().flatten().count() == 1)
                .map(|(i, _)| *i)
                .collect();
            if !singles.is_empty() && !rng.chance(250, 1000) {
                let parent = *rng.pick(&singles);
                let n = &model.nodes[&parent];
                let label = if rng.chance(850, 1000) {
                    n.children.iter().position(|c| c.is_some()).unwrap()
                } else {
                    pick_label(rng)
                };
                ArenaOp::Merge { parent, label }
            } else {
                ArenaOp::Merge { parent: pick_index(rng), label: pick_label(rng) }
            }
        }
        _ => {
            let value = *next_value;
            *next_value += 1;
            ArenaOp::UpdateNode { idx: pick_index(rng), value }
        }
    }
}

fn run_history<const K: usize>(
    property: &str,
    root_value: u32,
    mut source: OpSource<'_>,
    stats: Option<&mut ArenaStats>,
) -> ArenaResult {
    let mut tree: Tree<u32, K> = Tree::with_root(root_value, 4);
    let mut model = Model::new(K, tree.get_root_idx(), root_value);
    let mut history: Vec<ArenaOp> = Vec::new();
    let mut freed: Vec<usize> = Vec::new();
    let mut ever_freed: BTreeSet<usize> = BTreeSet::new();
    let mut next_value = root_value + 1;
    let mut local = ArenaStats::default();
    let mut hist_hash = Fnv::new();
    hist_hash.u64(K as u64);
    let mut had_failure = false;
    let mut had_reuse = false;
    let mut violation: Option<Violation> = None;

    let total = match &source {
        OpSource::Gen { len, .. } => *len,
        OpSource::Lit(ops) => ops.len(),
    };

    for step in 0..total {
        let op = match &mut source {
            OpSource::Gen { rng, knobs, .. } => gen_op(rng, &model, &freed, &mut next_value, knobs),
            OpSource::Lit(ops) => ops[step].clone(),
        };
        history.push(op.clone());
        let before = arena_view(&tree);
        let real = apply_real(&mut tree, &op);
        let before_model = model.clone();
        let real_index = match &real {
            Outcome::OkIndex(i) => Some(*i),
            _ => None,
        };
        let expected = model.apply(&op, real_index);

        let key = format!("{}:{}", op.name(), real.kind());
        *local.ops_by_kind_outcome.entry(key.clone()).or_default() += 1;
        local.ops += 1;
        hist_hash.str(&key);
        hist_hash.str(&format!("{op:?}{real:?}"));
        if !matches!(
            real,
            Outcome::OkIndex(_) | Outcome::OkValue(_) | Outcome::OkCount(_) | Outcome::OkNode { .. }
        ) {
            had_failure = true;
        }
        if let Outcome::OkIndex(i) = &real {
            if ever_freed.contains(i) {
                local.index_reuses += 1;
                had_reuse = true;
            }
        }

        let fail = |class: &str, detail: String| Violation {
            property: property.to_string(),
            class: class.to_string(),
            site: op.name().to_string(),
            step,
            detail,
        };

        // 1. the tree must satisfy the structural invariants after every call
        let after = arena_view(&tree);
        let detached: BTreeSet<usize> = model.nodes.iter().filter(|(i, n)| n.parent.is_none() && **i != model.root).map(|(i, _)| *i).collect();
        let reachable: Option<BTreeSet<usize>> = if detached.is_empty() { None } else { Some(model.subtree(model.root).into_iter().collect()) };
        if let Err((class, detail)) = check_invariants(&tree, &detached, reachable.as_ref()) {
            // refine: was this after a failing call?
            let class = match &real {
                Outcome::Err(_) => format!("{class}_after_err"),
                Outcome::Panic => format!("{class}_after_panic"),
                _ => class,
            };
            violation = Some(fail(&class, detail));
            break;
        }
        // 2. a call that returned Err leaves the tree observably unchanged
        if matches!(real, Outcome::Err(_)) && before != after {
            violation = Some(fail("state_changed_after_err", diff_views(&before, &after)));
            break;
        }
        // 3. return value as the reference model predicts
        if real != expected {
            violation = Some(fail(
                "wrong_result",
                format!("returned {real:?}, reference model expects {expected:?}"),
            ));
            break;
        }
        // 4. full arena view equals the model (survivors keep index and value, links, leaf flags)
        let mv = model_view(&model);
        if mv != after {
            violation = Some(fail("state_differs_from_model", diff_views(&mv, &after)));
            break;
        }

        // bookkeeping for the generator / evidence
        for i in before_model.nodes.keys() {
            if !model.nodes.contains_key(i) {
                freed.push(*i);
                ever_freed.insert(*i);
            }
        }
        if freed.len() > 16 {
            let cut = freed.len() - 16;
            freed.drain(0..cut);
        }
        local.max_nodes = local.max_nodes.max(model.nodes.len());
        local.shapes.insert(shape_hash(&model));
    }

    if let Some(stats) = stats {
        local.histories = 1;
        // digest of the whole event log of this history: (op, outcome) per step, final shape, verdict
        let mut d = hist_hash;
        d.u64(shape_hash(&model));
        d.str(&format!("{:?}", violation.as_ref().map(|v| v.key())));
        local.event_digest_sum = d.finish();
        if had_failure && had_reuse {
            local.nontrivial_histories = 1;
            local.history_hashes.insert(hist_hash.finish());
        }
        stats.merge(local);
    }
    ArenaResult { violation, history }
}

fn diff_views(a: &View, b: &View) -> String {
    let mut out = Vec::new();
    for (i, v) in a {
        match b.get(i) {
            None => out.push(format!("node {i} {v:?} -> gone")),
            Some(w) if w != v => out.push(format!("node {i} {v:?} -> {w:?}")),
            _ => {}
        }
    }
    for (i, w) in b {
        if !a.contains_key(i) {
            out.push(format!("node {i} appeared {w:?}"));
        }
    }
    out.truncate(4);
    out.join("; ")
}

/// One seeded run: K, knobs, length and every operation derive from `run_seed`.
pub fn seeded_run(property: &str, run_seed: u64, stats: &mut ArenaStats) -> (ArenaResult, usize, u32) {
    seeded_run_depth(property, run_seed, false, stats)
}

/// `deep` (thorough tier, every other run): K up to 5 and histories up to 250 calls.
pub fn seeded_run_depth(property: &str, run_seed: u64, deep: bool, stats: &mut ArenaStats) -> (ArenaResult, usize, u32) {
    let mut rng = Prng::new(run_seed);
    let k = if deep { *rng.pick(&[2usize, 3, 4, 5]) } else if rng.chance(1, 2) { 2 } else { 3 };
    let mut knobs = gen_knobs(&mut rng);
    let len = if deep { *rng.pick(&[40usize, 80, 120, 250]) } else { *rng.pick(&[3usize, 5, 8, 12, 20, 30, 60]) };
    if deep {
        knobs.soft_cap = *rng.pick(&[8, 25, 60]);
    }
    let root_value = 1000;
    let src = OpSource::Gen { rng: &mut rng, len, knobs };
    let res = match k {
        2 => run_history::<2>(property, root_value, src, Some(stats)),
        3 => run_history::<3>(property, root_value, src, Some(stats)),
        4 => run_history::<4>(property, root_value, src, Some(stats)),
        _ => run_history::<5>(property, root_value, src, Some(stats)),
    };
    (res, k, root_value)
}

pub fn replay_history(property: &str, k: usize, root_value: u32, ops: &[ArenaOp]) -> ArenaResult {
    match k {
        2 => run_history::<2>(property, root_value, OpSource::Lit(ops), None),
        3 => run_history::<3>(property, root_value, OpSource::Lit(ops), None),
        4 => run_history::<4>(property, root_value, OpSource::Lit(ops), None),
        5 => run_history::<5>(property, root_value, OpSource::Lit(ops), None),
        _ => panic!("unsupported K"),
    }
}

/// Delta debugging on the literal history: drop operations while the same violation class persists.
pub fn minimize(property: &str, k: usize, root_value: u32, ops: &[ArenaOp], target: &Violation) -> (Vec<ArenaOp>, Violation) {
    let mut cur: Vec<ArenaOp> = ops[..=target.step.min(ops.len() - 1)].to_vec();
    let mut cur_v = target.clone();
    let same = |v: &Option<Violation>| v.as_ref().map(|v| v.class == target.class && v.site == target.site).unwrap_or(false);
    let mut budget = 2000;
    let mut changed = true;
    while changed && budget > 0 {
        changed = false;
        let mut i = cur.len();
        while i > 0 && budget > 0 {
            i -= 1;
            if cur.len() <= 1 {
                break;
            }
            let mut cand = cur.clone();
            cand.remove(i);
            budget -= 1;
            let r = replay_history(property, k, root_value, &cand);
            if same(&r.violation) {
                let v = r.violation.unwrap();
                cand.truncate(v.step + 1);
                cur = cand;
                cur_v = v;
                changed = true;
                if i > cur.len() {
                    i = cur.len();
                }
            }
        }
    }
    (cur, cur_v)
}
