//! Branch-reach probes for free: the library logs at the branches we care about
//! (witness repair, solver error, undesired parent states). A counting logger turns those
//! messages into per-thread counters. Level Info: debug! arguments are never formatted.

use std::cell::RefCell;
use std::collections::BTreeMap;

use log::{Level, LevelFilter, Log, Metadata, Record};

thread_local! {
    static COUNTS: RefCell<BTreeMap<&'static str, u64>> = const { RefCell::new(BTreeMap::new()) };
}

struct Probe;

const KEYS: [(&str, &str); 9] = [
    ("LP solver returned an incorrect solution that could be fixed", "witness_repair_succeeded"),
    ("that could not be fixed", "witness_repair_failed"),
    ("LP solver terminated with error", "solver_error_in_elimination"),
    ("parent cache should store witnesses", "parent_feasible_without_witness"),
    ("Parent node of child has indetermined state", "parent_indeterminate"),
    ("when a parent node is infeasible", "child_of_infeasible_parent_processed"),
    ("Target function of LP is reported as unbounded", "unbounded_in_edge_test"),
    ("Error occurred while solving the linear program", "solver_error_in_edge_test"),
    ("number of considered solutions should be bounded", "many_witnesses"),
];

impl Log for Probe {
    fn enabled(&self, m: &Metadata) -> bool {
        m.level() <= Level::Info && m.target().starts_with("affinitree")
    }
    fn log(&self, r: &Record) {
        if !self.enabled(r.metadata()) {
            return;
        }
        let msg = r.args().to_string();
        for (needle, key) in KEYS {
            if msg.contains(needle) {
                COUNTS.with(|c| *c.borrow_mut().entry(key).or_default() += 1);
                return;
            }
        }
        COUNTS.with(|c| *c.borrow_mut().entry("other_log_message").or_default() += 1);
    }
    fn flush(&self) {}
}

static PROBE: Probe = Probe;

pub fn install() {
    let _ = log::set_logger(&PROBE);
    log::set_max_level(LevelFilter::Info);
}

/// Takes this thread's counters.
pub fn take() -> BTreeMap<&'static str, u64> {
    COUNTS.with(|c| std::mem::take(&mut *c.borrow_mut()))
}

/// Number of "the backend's answer had to be discarded" messages logged on this thread so far
/// (witness repair failed, solver error): lets a step find out whether it was affected.
pub fn discarded_answers() -> u64 {
    COUNTS.with(|c| {
        let c = c.borrow();
        ["witness_repair_failed", "solver_error_in_elimination", "solver_error_in_edge_test"].iter().map(|k| c.get(k).copied().unwrap_or(0)).sum()
    })
}
