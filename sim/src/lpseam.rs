//! The one seam: every answer of the LP backend passes through here.
//!
//! Modes: `Real` (record only), `Legal` (replace a correct witness by a different correct
//! witness), `Fault` (apply the run's fault plan). The real backend (minilp) always runs
//! below the seam; the seam post-processes its answer.

use std::cell::RefCell;
use std::collections::BTreeMap;
use std::rc::Rc;

use affinitree::linalg::affine::Polytope;
use affinitree::linalg::polyhedron::PolytopeStatus;
use affinitree::verif_hooks;
use ndarray::Array1;
use serde::{Deserialize, Serialize};

use crate::exact::{ray_shoot, width, Row, Q};
use crate::prng::Prng;

#[derive(Clone, Copy, Debug, Serialize, Deserialize, PartialEq, Eq, PartialOrd, Ord)]
pub enum Mode {
    Real,
    Legal,
    Fault,
}

#[derive(Clone, Debug, Serialize, Deserialize, PartialEq)]
#[serde(tag = "kind")]
pub enum FaultKind {
    /// PolytopeStatus::Error
    Error,
    /// PolytopeStatus::Unbounded
    Unbounded,
    /// Optimal(w + 10^exp * d): d is the outward normal of one row (`outward`) or a random direction
    Perturb { exp: i32, outward: bool, pick: u64 },
    /// Optimal(point far away from everything)
    FarOff { variant: u8, pick: u64 },
    /// Optimal(point with NaN / infinite coordinates)
    NonFinite { variant: u8 },
}

impl FaultKind {
    pub fn family(&self) -> &'static str {
        match self {
            FaultKind::Error => "error",
            FaultKind::Unbounded => "unbounded",
            FaultKind::Perturb { .. } => "perturbed_witness",
            FaultKind::FarOff { .. } => "far_off_witness",
            FaultKind::NonFinite { .. } => "non_finite_witness",
        }
    }

    pub fn label(&self) -> String {
        match self {
            FaultKind::Error => "error".into(),
            FaultKind::Unbounded => "unbounded".into(),
            FaultKind::Perturb { exp, outward, .. } => {
                format!("perturb_1e{exp}_{}", if *outward { "outward" } else { "random" })
            }
            FaultKind::FarOff { variant, .. } => format!("far_off_v{variant}"),
            FaultKind::NonFinite { variant } => format!("non_finite_v{variant}"),
        }
    }

    /// The fixed menu used by single-fault enumeration (one representative per sub-kind).
    pub fn menu() -> Vec<FaultKind> {
        vec![
            FaultKind::Error,
            FaultKind::Unbounded,
            FaultKind::Perturb { exp: -9, outward: true, pick: 1 },
            FaultKind::Perturb { exp: -7, outward: true, pick: 2 },
            FaultKind::Perturb { exp: -5, outward: false, pick: 3 },
            FaultKind::Perturb { exp: -3, outward: true, pick: 4 },
            FaultKind::Perturb { exp: -1, outward: false, pick: 5 },
            FaultKind::FarOff { variant: 0, pick: 6 },
            FaultKind::FarOff { variant: 1, pick: 7 },
            FaultKind::FarOff { variant: 2, pick: 8 },
            FaultKind::FarOff { variant: 3, pick: 9 },
            FaultKind::NonFinite { variant: 0 },
            FaultKind::NonFinite { variant: 1 },
        ]
    }

    pub fn random(rng: &mut Prng) -> FaultKind {
        // non-finite witnesses (NaN, +inf) are the limit case of "an 'optimal' point that is not in
        // the polytope"; see DESIGN.md 6.6 for the defect they exposed
        match rng.below(13) {
            0 | 1 => FaultKind::Error,
            2 | 3 => FaultKind::Unbounded,
            4..=7 => FaultKind::Perturb {
                exp: *rng.pick(&[-9, -7, -5, -3, -1]),
                outward: rng.chance(1, 2),
                pick: rng.next_u64(),
            },
            8..=11 => FaultKind::FarOff { variant: rng.below(4) as u8, pick: rng.next_u64() },
            _ => FaultKind::NonFinite { variant: rng.below(2) as u8 },
        }
    }
}

/// Faults by global LP call index of the run.
#[derive(Clone, Debug, Default, Serialize, Deserialize, PartialEq)]
pub struct FaultPlan {
    pub faults: BTreeMap<usize, FaultKind>,
}

#[derive(Clone, Copy, Debug, PartialEq, Eq, PartialOrd, Ord, Serialize, Deserialize)]
pub enum StatusKind {
    Infeasible,
    Unbounded,
    Optimal,
    Error,
}

pub fn status_kind(s: &PolytopeStatus) -> StatusKind {
    match s {
        PolytopeStatus::Infeasible => StatusKind::Infeasible,
        PolytopeStatus::Unbounded => StatusKind::Unbounded,
        PolytopeStatus::Optimal(_) => StatusKind::Optimal,
        PolytopeStatus::Error(_) => StatusKind::Error,
    }
}

#[derive(Clone, Debug)]
pub struct LpRecord {
    pub index: usize,
    pub zero_objective: bool,
    pub mat: Vec<Vec<f64>>,
    pub bias: Vec<f64>,
    pub real: StatusKind,
    pub real_witness: Option<Vec<f64>>,
    pub returned: StatusKind,
    pub returned_witness: Option<Vec<f64>>,
    /// label of the fault applied, or of the legal alternative chosen
    pub action: Option<String>,
    pub fault_family: Option<&'static str>,
    /// the answer handed to the library differs from the backend's
    pub changed: bool,
}

#[derive(Default, Debug)]
pub struct SeamLog {
    pub records: Vec<LpRecord>,
}

pub struct SeamState {
    pub mode: Mode,
    pub plan: FaultPlan,
    pub rng: Prng,
    pub log: SeamLog,
    /// faults only fire while this is set (the prefix of a C11 scenario runs fault-free)
    pub faults_armed: bool,
    /// Legal mode may also return points that violate a row by at most 1e-7 (absolute): correct by
    /// the feasibility tolerance of a real backend (HiGHS default 1e-7), outside the library's 1e-8
    pub tolerance_answers: bool,
    /// Fault mode: calls the plan does not fault get a (strictly) legal alternative witness instead
    /// of the backend's own, so that faults meet caches a different correct backend would have left
    pub legal_when_unfaulted: bool,
}

pub type Seam = Rc<RefCell<SeamState>>;

pub fn poly_rows(poly: &Polytope) -> Option<Vec<Row>> {
    let mut rows = Vec::with_capacity(poly.mat.nrows());
    for (r, b) in poly.mat.rows().into_iter().zip(poly.bias.iter()) {
        if !b.is_finite() || r.iter().any(|v| !v.is_finite()) {
            return None;
        }
        rows.push(Row { a: r.iter().map(|v| Q::from_f64(*v)).collect(), b: Q::from_f64(*b) });
    }
    Some(rows)
}

pub fn rows_of(mat: &[Vec<f64>], bias: &[f64]) -> Vec<Row> {
    mat.iter()
        .zip(bias)
        .map(|(r, b)| Row { a: r.iter().map(|v| Q::from_f64(*v)).collect(), b: Q::from_f64(*b) })
        .collect()
}

fn small_dir(rng: &mut Prng, dim: usize) -> Vec<i64> {
    loop {
        let d: Vec<i64> = (0..dim).map(|_| rng.range(-2, 2)).collect();
        if d.iter().any(|v| *v != 0) {
            return d;
        }
    }
}

/// A different correct witness for a non-empty polytope, chosen by the PRNG.
fn legal_alternative(rng: &mut Prng, poly: &Polytope, real_w: &Array1<f64>, tol: bool) -> Option<(Array1<f64>, String)> {
    let dim = poly.mat.ncols();
    let mut rows = poly_rows(poly)?;
    // Alternatives are searched inside a box around the origin that contains the backend's own point.
    // The polytope the backend sees may be a rounded version of the path polytope (normalized rows,
    // coefficients that are products of floats): rows that are opposite only up to rounding open
    // wedges 1e16 away that are feasible for the rounded system only.
    let reach = real_w.iter().fold(0.0f64, |m, v| m.max(v.abs()));
    if !(reach.is_finite()) || reach > 1e4 {
        return None;
    }
    rows.extend(crate::model::box_rows(dim, (4.0 * reach).max(16.0)));
    let wd = width(dim, &rows);
    if !wd.nonempty() {
        return None;
    }
    let center = wd.center.clone();
    if tol && rng.chance(1, 3) {
        if let Some(p) = tolerance_point(rng, &rows, &center) {
            return Some((p, "within_backend_tolerance_1e-7".into()));
        }
    }
    let to_arr = |p: &[Q]| Array1::from_vec(p.iter().map(|q| q.to_f64()).collect::<Vec<f64>>());
    let shoot = |from: &[Q], d: &[Q], frac: (i64, i64)| -> Vec<Q> {
        let lam = match ray_shoot(&rows, from, d) {
            Some(l) => l,
            None => Q::int(3),
        };
        let lam = lam.mul(&Q::ratio(frac.0, frac.1));
        from.iter().zip(d).map(|(x, di)| x.add(&lam.mul(di))).collect()
    };
    let choice = rng.below(6);
    let (pt, label): (Vec<Q>, &str) = match choice {
        0 => return Some((real_w.clone(), "keep_real".into())),
        1 => (center, "l1_chebyshev_centre"),
        2 => {
            let d: Vec<Q> = small_dir(rng, dim).into_iter().map(Q::int).collect();
            (shoot(&center, &d, (1, 1)), "boundary_point_random_direction")
        }
        3 => {
            // towards the newest hyperplane: direction = +a_last (increases a_last . x)
            let last = rows.iter().rev().find(|r| !r.is_zero_row());
            match last {
                Some(r) => {
                    let d = r.a.clone();
                    (shoot(&center, &d, (1, 1)), "on_newest_hyperplane")
                }
                None => (center, "l1_chebyshev_centre"),
            }
        }
        4 => {
            let d: Vec<Q> = small_dir(rng, dim).into_iter().map(Q::int).collect();
            (shoot(&center, &d, (1, 2)), "midpoint_to_boundary")
        }
        _ => {
            // from the backend's own point towards a random direction, if that point is exactly feasible
            let rw: Vec<Q> = real_w.iter().map(|v| Q::from_f64(*v)).collect();
            if rows.iter().all(|r| !r.slack(&rw).is_neg()) {
                let d: Vec<Q> = small_dir(rng, dim).into_iter().map(Q::int).collect();
                (shoot(&rw, &d, (1, 1)), "boundary_point_from_backend_point")
            } else {
                (center, "l1_chebyshev_centre")
            }
        }
    };
    let arr = to_arr(&pt);
    if arr.iter().any(|v| !v.is_finite()) {
        return None;
    }
    // the rounded point must still be a correct answer by the library's own standard
    if !poly.contains(&arr) {
        return Some((real_w.clone(), "keep_real_rounding".into()));
    }
    Some((arr, label.to_string()))
}

/// A point on a facet pushed outward so that the worst row violation lies in (1.5e-8, 1e-7]:
/// a correct answer for a backend with primal feasibility tolerance 1e-7, rejected by the
/// library's own `contains` (1e-8) and therefore sent through the witness repair.
fn tolerance_point(rng: &mut Prng, rows: &[Row], center: &[Q]) -> Option<Array1<f64>> {
    let live: Vec<&Row> = rows.iter().filter(|r| !r.is_zero_row()).collect();
    if live.is_empty() {
        return None;
    }
    let target = live[rng.below(live.len())];
    let lam = ray_shoot(rows, center, &target.a)?;
    let hit: Vec<Q> = center.iter().zip(&target.a).map(|(x, d)| x.add(&lam.mul(d))).collect();
    // the row that stopped the ray
    let stop = rows.iter().filter(|r| !r.is_zero_row()).min_by(|a, b| a.slack(&hit).cmp(&b.slack(&hit)))?;
    let v = *rng.pick(&[2e-8, 5e-8, 9e-8]);
    let n2: f64 = stop.a.iter().map(|q| q.to_f64() * q.to_f64()).sum();
    if !(n2 > 0.0) || !n2.is_finite() {
        return None;
    }
    let p: Vec<f64> = hit.iter().zip(&stop.a).map(|(x, a)| x.to_f64() + v / n2 * a.to_f64()).collect();
    if p.iter().any(|x| !x.is_finite()) {
        return None;
    }
    let pq: Vec<Q> = p.iter().map(|x| Q::from_f64(*x)).collect();
    let mut worst = Q::zero();
    for r in rows {
        let viol = r.slack(&pq).neg();
        if viol > worst {
            worst = viol;
        }
    }
    if worst > Q::from_f64(1.5e-8) && worst <= Q::from_f64(1e-7) {
        Some(Array1::from_vec(p))
    } else {
        None
    }
}

fn apply_fault(kind: &FaultKind, poly: &Polytope, real: &PolytopeStatus) -> PolytopeStatus {
    let dim = poly.mat.ncols();
    let base: Array1<f64> = match real {
        PolytopeStatus::Optimal(w) if w.len() == dim => w.clone(),
        _ => Array1::zeros(dim),
    };
    match kind {
        FaultKind::Error => PolytopeStatus::Error("injected fault: solver error".to_string()),
        FaultKind::Unbounded => PolytopeStatus::Unbounded,
        FaultKind::Perturb { exp, outward, pick } => {
            let delta = 10f64.powi(*exp);
            let mut rng = Prng::new(*pick);
            let mut d: Vec<f64> = vec![0.0; dim];
            let nrows = poly.mat.nrows();
            let mut done = false;
            if *outward && nrows > 0 {
                // outward normal of one row: exactly that constraint gets (more) violated
                let start = rng.below(nrows);
                for k in 0..nrows {
                    let r = poly.mat.row((start + k) % nrows);
                    let norm: f64 = r.iter().map(|v| v * v).sum::<f64>().sqrt();
                    if norm > 0.0 && norm.is_finite() {
                        for (j, v) in r.iter().enumerate() {
                            d[j] = v / norm;
                        }
                        done = true;
                        break;
                    }
                }
            }
            if !done {
                let sd = small_dir(&mut rng, dim.max(1));
                let norm: f64 = sd.iter().map(|v| (*v * *v) as f64).sum::<f64>().sqrt();
                for j in 0..dim {
                    d[j] = sd[j] as f64 / norm;
                }
            }
            let mut w = base;
            for j in 0..dim {
                w[j] += delta * d[j];
            }
            PolytopeStatus::Optimal(w)
        }
        FaultKind::FarOff { variant, pick } => {
            let mut rng = Prng::new(*pick);
            let mut w = base.clone();
            match variant % 4 {
                0 => {
                    for j in 0..dim {
                        w[j] = if rng.chance(1, 2) { 1e6 } else { -1e6 } * (1 + rng.below(3)) as f64;
                    }
                }
                1 => {
                    for j in 0..dim {
                        w[j] = 1e12;
                    }
                }
                2 => {
                    for j in 0..dim {
                        w[j] = -base[j] - 1e3;
                    }
                }
                _ => {
                    for j in 0..dim {
                        w[j] = base[j] + 1e3 * (rng.range(-3, 3) as f64);
                    }
                    if dim > 0 && w == base {
                        w[0] += 1e3;
                    }
                }
            }
            PolytopeStatus::Optimal(w)
        }
        FaultKind::NonFinite { variant } => {
            let mut w = base;
            if dim > 0 {
                if variant % 2 == 0 {
                    for j in 0..dim {
                        w[j] = f64::NAN;
                    }
                } else {
                    w[0] = f64::INFINITY;
                }
            }
            PolytopeStatus::Optimal(w)
        }
    }
}

/// Installs the seam on this thread. Call counters restart at `first_index`.
pub fn install(mode: Mode, plan: FaultPlan, rng: Prng) -> Seam {
    let state: Seam = Rc::new(RefCell::new(SeamState {
        mode,
        plan,
        rng,
        log: SeamLog::default(),
        faults_armed: true,
        tolerance_answers: false,
        legal_when_unfaulted: false,
    }));
    let st = state.clone();
    verif_hooks::reset_lp_calls();
    verif_hooks::set_lp_interceptor(Some(Box::new(
        move |index: usize, poly: &Polytope, coeffs: &Array1<f64>, real: &mut dyn FnMut() -> PolytopeStatus| {
            let real_status = real();
            let zero_objective = coeffs.iter().all(|c| *c == 0.0);
            let mut s = st.borrow_mut();
            let mut returned = real_status.clone();
            let mut action: Option<String> = None;
            let mut fault_family = None;
            if zero_objective {
                match s.mode {
                    Mode::Real => {}
                    Mode::Legal => {
                        if let PolytopeStatus::Optimal(w) = &real_status {
                            if let Some((alt, label)) = { let tol = s.tolerance_answers; legal_alternative(&mut s.rng, poly, w, tol) } {
                                returned = PolytopeStatus::Optimal(alt);
                                action = Some(label);
                            }
                        }
                    }
                    Mode::Fault => {
                        let mut faulted = false;
                        if s.faults_armed {
                            if let Some(kind) = s.plan.faults.get(&index).cloned() {
                                returned = apply_fault(&kind, poly, &real_status);
                                action = Some(kind.label());
                                fault_family = Some(kind.family());
                                faulted = true;
                            }
                        }
                        if !faulted && s.legal_when_unfaulted && s.faults_armed {
                            if let PolytopeStatus::Optimal(w) = &real_status {
                                if let Some((alt, label)) = legal_alternative(&mut s.rng, poly, w, false) {
                                    returned = PolytopeStatus::Optimal(alt);
                                    action = Some(format!("legal:{label}"));
                                }
                            }
                        }
                    }
                }
            }
            let wit = |st: &PolytopeStatus| match st {
                PolytopeStatus::Optimal(w) => Some(w.to_vec()),
                _ => None,
            };
            let changed = match (&real_status, &returned) {
                (PolytopeStatus::Optimal(a), PolytopeStatus::Optimal(b)) => {
                    a.len() != b.len() || a.iter().zip(b.iter()).any(|(x, y)| x.to_bits() != y.to_bits())
                }
                (a, b) => status_kind(a) != status_kind(b),
            };
            s.log.records.push(LpRecord {
                index,
                zero_objective,
                mat: poly.mat.rows().into_iter().map(|r| r.to_vec()).collect(),
                bias: poly.bias.to_vec(),
                real: status_kind(&real_status),
                real_witness: wit(&real_status),
                returned: status_kind(&returned),
                returned_witness: wit(&returned),
                action,
                fault_family,
                changed,
            });
            returned
        },
    )));
    state
}

pub fn uninstall() {
    verif_hooks::set_lp_interceptor(None);
}

/// Next global LP call index on this thread.
pub fn next_index() -> usize {
    verif_hooks::lp_calls()
}

pub fn take_records(seam: &Seam) -> Vec<LpRecord> {
    std::mem::take(&mut seam.borrow_mut().log.records)
}
