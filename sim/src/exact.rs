//! Exact arithmetic for the oracles: rationals over big integers, an exact LP
//! ("width" of a closed polytope) whose answers are certified by substitution,
//! and exact conversion from f64.

use std::cmp::Ordering;
use std::fmt;

use num_bigint::BigInt;
use num_integer::Integer;
use num_traits::{One, Signed, ToPrimitive, Zero};

// ---------------------------------------------------------------------------
// Rationals
// ---------------------------------------------------------------------------

#[derive(Clone, PartialEq, Eq, Hash)]
pub struct Q {
    n: BigInt,
    d: BigInt, // > 0, gcd(n, d) = 1
}

impl fmt::Debug for Q {
    fn fmt(&self, f: &mut fmt::Formatter<'_>) -> fmt::Result {
        if self.d.is_one() {
            write!(f, "{}", self.n)
        } else {
            write!(f, "{}/{}", self.n, self.d)
        }
    }
}

impl fmt::Display for Q {
    fn fmt(&self, f: &mut fmt::Formatter<'_>) -> fmt::Result {
        fmt::Debug::fmt(self, f)
    }
}

impl Q {
    pub fn new(n: BigInt, d: BigInt) -> Q {
        assert!(!d.is_zero(), "zero denominator");
        let (mut n, mut d) = (n, d);
        if d.is_negative() {
            n = -n;
            d = -d;
        }
        let g = n.gcd(&d);
        if !g.is_one() {
            n /= &g;
            d /= &g;
        }
        Q { n, d }
    }

    pub fn zero() -> Q {
        Q {
            n: BigInt::zero(),
            d: BigInt::one(),
        }
    }

    pub fn one() -> Q {
        Q {
            n: BigInt::one(),
            d: BigInt::one(),
        }
    }

    pub fn int(v: i64) -> Q {
        Q {
            n: BigInt::from(v),
            d: BigInt::one(),
        }
    }

    pub fn ratio(n: i64, d: i64) -> Q {
        Q::new(BigInt::from(n), BigInt::from(d))
    }

    pub fn from_big(n: BigInt) -> Q {
        Q {
            n,
            d: BigInt::one(),
        }
    }

    /// Exact value of a finite f64. Panics on NaN / infinity.
    pub fn from_f64(x: f64) -> Q {
        assert!(x.is_finite(), "non-finite float has no rational value");
        if x == 0.0 {
            return Q::zero();
        }
        let bits = x.to_bits();
        let sign = if (bits >> 63) == 1 { -1i64 } else { 1 };
        let exp = ((bits >> 52) & 0x7ff) as i64;
        let frac = bits & 0x000f_ffff_ffff_ffff;
        let (mant, e) = if exp == 0 {
            (frac, -1074i64)
        } else {
            (frac | (1u64 << 52), exp - 1075)
        };
        let mut n = BigInt::from(mant);
        if sign < 0 {
            n = -n;
        }
        if e >= 0 {
            Q::from_big(n << (e as usize))
        } else {
            Q::new(n, BigInt::one() << ((-e) as usize))
        }
    }

    /// Nearest-ish f64 (for reporting and for handing points to the real code).
    pub fn to_f64(&self) -> f64 {
        if self.n.is_zero() {
            return 0.0;
        }
        // scale so that the quotient has ~64 significant bits
        let nb = self.n.bits() as i64;
        let db = self.d.bits() as i64;
        let shift = 64 - (nb - db);
        let q = if shift >= 0 {
            (&self.n << (shift as usize)) / &self.d
        } else {
            &self.n / (&self.d << ((-shift) as usize))
        };
        let qf = q.to_f64().unwrap_or(f64::NAN);
        let mut e = -shift;
        let mut x = qf;
        while e > 900 {
            x *= (2.0f64).powi(900);
            e -= 900;
        }
        while e < -900 {
            x *= (2.0f64).powi(-900);
            e += 900;
        }
        x * (2.0f64).powi(e as i32)
    }

    pub fn is_zero(&self) -> bool {
        self.n.is_zero()
    }

    pub fn signum(&self) -> i32 {
        if self.n.is_zero() {
            0
        } else if self.n.is_negative() {
            -1
        } else {
            1
        }
    }

    pub fn is_neg(&self) -> bool {
        self.n.is_negative()
    }

    pub fn is_pos(&self) -> bool {
        self.n.is_positive()
    }

    pub fn abs(&self) -> Q {
        Q {
            n: self.n.abs(),
            d: self.d.clone(),
        }
    }

    pub fn neg(&self) -> Q {
        Q {
            n: -&self.n,
            d: self.d.clone(),
        }
    }

    pub fn add(&self, o: &Q) -> Q {
        if self.d == o.d {
            return Q::new(&self.n + &o.n, self.d.clone());
        }
        Q::new(&self.n * &o.d + &o.n * &self.d, &self.d * &o.d)
    }

    pub fn sub(&self, o: &Q) -> Q {
        if self.d == o.d {
            return Q::new(&self.n - &o.n, self.d.clone());
        }
        Q::new(&self.n * &o.d - &o.n * &self.d, &self.d * &o.d)
    }

    pub fn mul(&self, o: &Q) -> Q {
        if self.n.is_zero() || o.n.is_zero() {
            return Q::zero();
        }
        Q::new(&self.n * &o.n, &self.d * &o.d)
    }

    pub fn div(&self, o: &Q) -> Q {
        assert!(!o.n.is_zero(), "division by zero");
        Q::new(&self.n * &o.d, &self.d * &o.n)
    }

    pub fn numer(&self) -> &BigInt {
        &self.n
    }

    pub fn denom(&self) -> &BigInt {
        &self.d
    }

    pub fn min(a: &Q, b: &Q) -> Q {
        if a <= b {
            a.clone()
        } else {
            b.clone()
        }
    }

    /// True iff the value is k * 2^-frac_bits with |value| < 2^int_bits.
    pub fn fits_fixed(&self, int_bits: u32, frac_bits: u32) -> bool {
        // denominator must be a power of two not exceeding 2^frac_bits
        let d = &self.d;
        if !(d & (d - BigInt::one())).is_zero() {
            return false;
        }
        if d.bits() as u32 > frac_bits + 1 {
            return false;
        }
        self.abs() < Q::from_big(BigInt::one() << (int_bits as usize))
    }
}

impl PartialOrd for Q {
    fn partial_cmp(&self, o: &Q) -> Option<Ordering> {
        Some(self.cmp(o))
    }
}

impl Ord for Q {
    fn cmp(&self, o: &Q) -> Ordering {
        if self.d == o.d {
            return self.n.cmp(&o.n);
        }
        (&self.n * &o.d).cmp(&(&o.n * &self.d))
    }
}

pub fn dot(a: &[Q], b: &[Q]) -> Q {
    assert_eq!(a.len(), b.len());
    let mut acc = Q::zero();
    for (x, y) in a.iter().zip(b) {
        if !x.is_zero() && !y.is_zero() {
            acc = acc.add(&x.mul(y));
        }
    }
    acc
}

// ---------------------------------------------------------------------------
// Half-spaces and the width LP
// ---------------------------------------------------------------------------

/// The closed half-space a . x <= b.
#[derive(Clone, Debug, PartialEq, Eq, Hash)]
pub struct Row {
    pub a: Vec<Q>,
    pub b: Q,
}

impl Row {
    pub fn negated(&self) -> Row {
        Row {
            a: self.a.iter().map(|x| x.neg()).collect(),
            b: self.b.neg(),
        }
    }

    pub fn is_zero_row(&self) -> bool {
        self.a.iter().all(|x| x.is_zero())
    }

    pub fn l1(&self) -> Q {
        let mut acc = Q::zero();
        for x in &self.a {
            acc = acc.add(&x.abs());
        }
        acc
    }

    /// b - a.x
    pub fn slack(&self, x: &[Q]) -> Q {
        self.b.sub(&dot(&self.a, x))
    }
}

#[derive(Clone, Debug)]
pub struct Width {
    /// A zero row with negative right-hand side makes the set empty regardless of x.
    pub trivially_empty: bool,
    /// max t  s.t.  a_i x + |a_i|_1 t <= b_i,  t <= 1.   (meaningless if trivially_empty)
    pub rho: Q,
    /// a maximiser x
    pub center: Vec<Q>,
}

#[derive(Clone, Copy, Debug, PartialEq, Eq)]
pub enum Class {
    Empty,
    Thin,
    Fat,
}

/// tau = 1e-6 exactly as a rational
pub fn tau() -> Q {
    Q::ratio(1, 1_000_000)
}

impl Width {
    pub fn class(&self) -> Class {
        if self.trivially_empty {
            return Class::Empty;
        }
        let t = tau();
        if self.rho >= t {
            Class::Fat
        } else if self.rho <= t.neg() {
            Class::Empty
        } else {
            Class::Thin
        }
    }

    /// The polytope has at least one point.
    pub fn nonempty(&self) -> bool {
        !self.trivially_empty && !self.rho.is_neg()
    }
}

thread_local! {
    pub static LP_STATS: std::cell::Cell<(u64, u64)> = const { std::cell::Cell::new((0, 0)) };
}

/// (exact LPs solved on this thread, of which needed the big-integer tableau)
pub fn lp_stats() -> (u64, u64) {
    LP_STATS.with(|c| c.get())
}

trait Int: Clone {
    fn from_big(b: &BigInt) -> Option<Self>;
    fn to_big(&self) -> BigInt;
    fn mul(&self, o: &Self) -> Option<Self>;
    fn sub(&self, o: &Self) -> Option<Self>;
    fn div_exact(&self, o: &Self) -> Self;
    fn sign(&self) -> i32;
    fn icmp(&self, o: &Self) -> Ordering;
    fn izero() -> Self;
    fn ione() -> Self;
}

impl Int for i128 {
    fn from_big(b: &BigInt) -> Option<i128> {
        b.to_i128()
    }
    fn to_big(&self) -> BigInt {
        BigInt::from(*self)
    }
    fn mul(&self, o: &i128) -> Option<i128> {
        self.checked_mul(*o)
    }
    fn sub(&self, o: &i128) -> Option<i128> {
        self.checked_sub(*o)
    }
    fn div_exact(&self, o: &i128) -> i128 {
        debug_assert!(self % o == 0);
        self / o
    }
    fn sign(&self) -> i32 {
        self.signum() as i32
    }
    fn icmp(&self, o: &i128) -> Ordering {
        Ord::cmp(self, o)
    }
    fn izero() -> i128 {
        0
    }
    fn ione() -> i128 {
        1
    }
}

impl Int for BigInt {
    fn from_big(b: &BigInt) -> Option<BigInt> {
        Some(b.clone())
    }
    fn to_big(&self) -> BigInt {
        self.clone()
    }
    fn mul(&self, o: &BigInt) -> Option<BigInt> {
        Some(self * o)
    }
    fn sub(&self, o: &BigInt) -> Option<BigInt> {
        Some(self - o)
    }
    fn div_exact(&self, o: &BigInt) -> BigInt {
        debug_assert!((self % o).is_zero());
        self / o
    }
    fn sign(&self) -> i32 {
        if self.is_zero() {
            0
        } else if self.is_negative() {
            -1
        } else {
            1
        }
    }
    fn icmp(&self, o: &BigInt) -> Ordering {
        Ord::cmp(self, o)
    }
    fn izero() -> BigInt {
        BigInt::zero()
    }
    fn ione() -> BigInt {
        BigInt::one()
    }
}

/// Result of the integer simplex: basic values and duals as (numerators, common denominator).
struct SimplexOut {
    /// value of each structural column (index < ncols_struct) as numerator over `den`
    values: Vec<BigInt>,
    /// dual multiplier of each constraint row, numerator over `den`
    duals: Vec<BigInt>,
    den: BigInt,
}

/// Maximise c.v subject to G v + s = h, v >= 0, s >= 0 with h >= 0 (slack basis feasible),
/// all data integral. Fraction-free (Edmonds) pivoting, Bland's rule. Returns None on
/// overflow of the integer type or if the problem is unbounded (the caller's problems never are).
fn simplex<I: Int>(g: &[Vec<BigInt>], h: &[BigInt], c: &[BigInt]) -> Option<SimplexOut> {
    let m = g.len();
    let n = c.len();
    let width = n + m + 1; // structural, slack, rhs
    let rhs = n + m;
    // rows 0..m constraints, row m objective
    let mut t: Vec<Vec<I>> = Vec::with_capacity(m + 1);
    for i in 0..m {
        let mut row: Vec<I> = Vec::with_capacity(width);
        for j in 0..n {
            row.push(I::from_big(&g[i][j])?);
        }
        for j in 0..m {
            row.push(if i == j { I::ione() } else { I::izero() });
        }
        row.push(I::from_big(&h[i])?);
        t.push(row);
    }
    let mut obj: Vec<I> = Vec::with_capacity(width);
    for j in 0..n {
        obj.push(I::from_big(&(-&c[j]))?);
    }
    for _ in 0..=m {
        obj.push(I::izero());
    }
    t.push(obj);

    let mut basis: Vec<usize> = (n..n + m).collect();
    let mut den: I = I::ione();

    let mut iterations = 0usize;
    loop {
        iterations += 1;
        if iterations > 10_000 {
            panic!("exact simplex did not terminate (Bland's rule should prevent this)");
        }
        // entering: smallest column index with negative reduced cost
        let mut enter = None;
        for j in 0..rhs {
            if t[m][j].sign() < 0 {
                enter = Some(j);
                break;
            }
        }
        let Some(c_in) = enter else { break };
        // leaving: min ratio, ties by smallest basis variable
        let mut leave: Option<usize> = None;
        for i in 0..m {
            if t[i][c_in].sign() > 0 {
                match leave {
                    None => leave = Some(i),
                    Some(k) => {
                        // t[i][rhs]/t[i][c] < t[k][rhs]/t[k][c] ?
                        let lhs = t[i][rhs].mul(&t[k][c_in])?;
                        let rhs_v = t[k][rhs].mul(&t[i][c_in])?;
                        match lhs.icmp(&rhs_v) {
                            Ordering::Less => leave = Some(i),
                            Ordering::Equal => {
                                if basis[i] < basis[k] {
                                    leave = Some(i);
                                }
                            }
                            Ordering::Greater => {}
                        }
                    }
                }
            }
        }
        let r = leave?; // None = unbounded: does not happen for the width LP
        let p = t[r][c_in].clone();
        for i in 0..=m {
            if i == r {
                continue;
            }
            let f = t[i][c_in].clone();
            for j in 0..width {
                let a = t[i][j].mul(&p)?;
                let b = f.mul(&t[r][j])?;
                t[i][j] = a.sub(&b)?.div_exact(&den);
            }
        }
        den = p;
        basis[r] = c_in;
    }

    let mut values = vec![BigInt::zero(); n];
    for i in 0..m {
        if basis[i] < n {
            values[basis[i]] = t[i][rhs].to_big();
        }
    }
    let duals = (0..m).map(|i| t[m][n + i].to_big()).collect();
    Some(SimplexOut {
        values,
        duals,
        den: den.to_big(),
    })
}

fn lcm_den(vals: &[&Q]) -> BigInt {
    let mut l = BigInt::one();
    for v in vals {
        l = l.lcm(v.denom());
    }
    l
}

/// Exact "width" of {x | rows}: see [`Width`]. Every answer is certified by primal and dual
/// substitution before it is returned; a failed certificate is a harness bug and panics.
pub fn width(dim: usize, rows: &[Row]) -> Width {
    let mut live: Vec<&Row> = Vec::with_capacity(rows.len());
    // A zero row 0 <= b with b < 0 makes the set empty whatever x is. It has no normal vector to
    // normalize by, so |b| itself is taken as the amount of emptiness: below tau it is the
    // tolerance band (a solver with tolerance 1e-8 calls 0 <= -7e-9 feasible), reported as a cap.
    let mut zero_row_cap: Option<Q> = None;
    for r in rows {
        assert_eq!(r.a.len(), dim);
        if r.is_zero_row() {
            if r.b.is_neg() {
                if r.b <= tau().neg() {
                    return Width {
                        trivially_empty: true,
                        rho: Q::int(-1),
                        center: vec![Q::zero(); dim],
                    };
                }
                zero_row_cap = Some(match zero_row_cap {
                    None => r.b.clone(),
                    Some(c) => Q::min(&c, &r.b),
                });
            }
        } else {
            live.push(r);
        }
    }
    if live.is_empty() {
        return Width {
            trivially_empty: false,
            rho: zero_row_cap.unwrap_or_else(Q::one),
            center: vec![Q::zero(); dim],
        };
    }
    let m = live.len();
    let w: Vec<Q> = live.iter().map(|r| r.l1()).collect();
    // t0: a feasible t at x = 0
    let mut t0 = Q::one();
    for (r, wi) in live.iter().zip(&w) {
        let cand = r.b.div(wi);
        if cand < t0 {
            t0 = cand;
        }
    }
    // variables: xp_0..xp_{d-1}, xn_0..xn_{d-1}, up, un ; constraints: m rows + (u <= 1 - t0)
    let nvar = 2 * dim + 2;
    let mut g: Vec<Vec<BigInt>> = Vec::with_capacity(m + 1);
    let mut h: Vec<BigInt> = Vec::with_capacity(m + 1);
    let mut scale: Vec<BigInt> = Vec::with_capacity(m + 1);
    for (r, wi) in live.iter().zip(&w) {
        let bp = r.b.sub(&wi.mul(&t0)); // >= 0
        debug_assert!(!bp.is_neg());
        let mut refs: Vec<&Q> = r.a.iter().collect();
        refs.push(wi);
        refs.push(&bp);
        let l = lcm_den(&refs);
        let to_int = |q: &Q| -> BigInt { q.numer() * (&l / q.denom()) };
        let mut row = Vec::with_capacity(nvar);
        for x in &r.a {
            row.push(to_int(x));
        }
        for x in &r.a {
            row.push(-to_int(x));
        }
        row.push(to_int(wi));
        row.push(-to_int(wi));
        g.push(row);
        h.push(to_int(&bp));
        scale.push(l);
    }
    {
        let cap = Q::one().sub(&t0); // >= 0
        let l = cap.denom().clone();
        let mut row = vec![BigInt::zero(); nvar];
        row[2 * dim] = l.clone();
        row[2 * dim + 1] = -l.clone();
        g.push(row);
        h.push(cap.numer().clone());
        scale.push(l);
    }
    let mut c = vec![BigInt::zero(); nvar];
    c[2 * dim] = BigInt::one();
    c[2 * dim + 1] = -BigInt::one();

    let mut used_big = 0;
    let out = match simplex::<i128>(&g, &h, &c) {
        Some(o) => o,
        None => {
            used_big = 1;
            simplex::<BigInt>(&g, &h, &c).expect("width LP is bounded and feasible")
        }
    };
    LP_STATS.with(|s| {
        let (a, b) = s.get();
        s.set((a + 1, b + used_big));
    });

    let den = Q::from_big(out.den.clone());
    let val = |j: usize| Q::from_big(out.values[j].clone()).div(&den);
    let center: Vec<Q> = (0..dim).map(|j| val(j).sub(&val(dim + j))).collect();
    let u = val(2 * dim).sub(&val(2 * dim + 1));
    let rho = t0.add(&u);
    // duals w.r.t. the original (unscaled) rows
    let y: Vec<Q> = (0..=m)
        .map(|i| {
            Q::from_big(out.duals[i].clone())
                .div(&den)
                .mul(&Q::from_big(scale[i].clone()))
        })
        .collect();

    // --- certificate: primal feasibility
    for (r, wi) in live.iter().zip(&w) {
        let lhs = dot(&r.a, &center).add(&wi.mul(&rho));
        assert!(lhs <= r.b, "width LP: primal certificate failed");
    }
    assert!(rho <= Q::one(), "width LP: primal cap failed");
    // --- certificate: dual feasibility and equal objective
    let mut sum_a = vec![Q::zero(); dim];
    let mut sum_w = Q::zero();
    let mut sum_b = Q::zero();
    for i in 0..m {
        assert!(!y[i].is_neg(), "width LP: negative dual");
        for j in 0..dim {
            sum_a[j] = sum_a[j].add(&y[i].mul(&live[i].a[j]));
        }
        sum_w = sum_w.add(&y[i].mul(&w[i]));
        sum_b = sum_b.add(&y[i].mul(&live[i].b));
    }
    assert!(!y[m].is_neg(), "width LP: negative dual (cap)");
    sum_w = sum_w.add(&y[m]);
    sum_b = sum_b.add(&y[m]);
    assert!(
        sum_a.iter().all(|x| x.is_zero()),
        "width LP: dual certificate (x columns) failed"
    );
    assert!(sum_w == Q::one(), "width LP: dual certificate (t column) failed");
    assert!(sum_b == rho, "width LP: duality gap");

    let rho = match zero_row_cap {
        Some(c) => Q::min(&rho, &c),
        None => rho,
    };
    Width {
        trivially_empty: false,
        rho,
        center,
    }
}

/// Largest lambda >= 0 with x + lambda d inside all rows (None = unbounded in that direction).
/// `x` must satisfy all rows.
pub fn ray_shoot(rows: &[Row], x: &[Q], d: &[Q]) -> Option<Q> {
    let mut best: Option<Q> = None;
    for r in rows {
        let ad = dot(&r.a, d);
        if ad.is_pos() {
            let lam = r.slack(x).div(&ad);
            best = Some(match best {
                None => lam,
                Some(b) => Q::min(&b, &lam),
            });
        }
    }
    best
}

#[cfg(test)]
mod tests {
    use super::*;

    fn row(a: &[i64], b: i64) -> Row {
        Row {
            a: a.iter().map(|v| Q::int(*v)).collect(),
            b: Q::int(b),
        }
    }

    #[test]
    fn f64_roundtrip() {
        for v in [0.0, 1.0, -1.5, 0.1, 1e-20, 123456.789, -3.0e10, f64::MIN_POSITIVE] {
            let q = Q::from_f64(v);
            assert_eq!(q.to_f64(), v, "{v}");
        }
        assert_eq!(Q::from_f64(0.75), Q::ratio(3, 4));
    }

    #[test]
    fn width_box() {
        // -1 <= x <= 1, -1 <= y <= 1 : rho capped at 1
        let rows = vec![row(&[1, 0], 1), row(&[-1, 0], 1), row(&[0, 1], 1), row(&[0, -1], 1)];
        let w = width(2, &rows);
        assert_eq!(w.rho, Q::one());
        assert_eq!(w.class(), Class::Fat);
    }

    #[test]
    fn width_empty_and_thin() {
        let rows = vec![row(&[1], 0), row(&[-1], -1)];
        let w = width(1, &rows);
        assert_eq!(w.rho, Q::ratio(-1, 2));
        assert_eq!(w.class(), Class::Empty);
        let rows = vec![row(&[1], 0), row(&[-1], 0)];
        let w = width(1, &rows);
        assert_eq!(w.rho, Q::zero());
        assert_eq!(w.class(), Class::Thin);
        assert!(w.nonempty());
        let rows = vec![row(&[0, 0], -1)];
        assert_eq!(width(2, &rows).class(), Class::Empty);
        let rows = vec![row(&[0, 0], 0)];
        assert_eq!(width(2, &rows).class(), Class::Fat);
    }

    #[test]
    fn width_triangle() {
        // x >= 0, y >= 0, x + y <= 1 : l1-inradius: t with x>=t, y>=t, x+y+2t<=1 -> t = 1/4
        let rows = vec![row(&[-1, 0], 0), row(&[0, -1], 0), row(&[1, 1], 1)];
        let w = width(2, &rows);
        assert_eq!(w.rho, Q::ratio(1, 4));
    }
}
