//! The history simulator for C03, C04, C05, C06 and C11: a pool of long-lived `AffTree<2>`
//! values, a history of operations on them, the LP seam in one of three modes, and the
//! oracles evaluated after every step.

use std::collections::{BTreeMap, BTreeSet};

use affinitree::distill::builder::afftree_from_layers;
use affinitree::linalg::affine::{AffFunc, Polytope};
use affinitree::pwl::afftree::AffTree;
use affinitree::pwl::node::NodeState;
use ndarray::{Array1, Array2};
use serde::{Deserialize, Serialize};

use crate::common::{event, events_digest, events_reset, guarded, panic_site, step_crumb, Violation};
use crate::exact::{width, Class, Row, Q};
use crate::gen::{self, SlotInfo};
use crate::lit::*;
use crate::lpseam::{self, FaultPlan, LpRecord, Mode, Seam};
use crate::model::{count_fat_leaves, walk_in_box, AffQ, Disagreement, ModelTree, RTree, WalkStats};
use crate::oracle::{self, AuditStats, C06Stats, CacheStats};
use crate::prng::Prng;

#[derive(Clone, Debug, Serialize, Deserialize, PartialEq)]
pub struct Scenario {
    pub pool: Vec<Ctor>,
    pub history: Vec<Op>,
    pub mode: Mode,
    /// seeds the seam's own stream (legal-mode choices) and the probe stream
    pub seam_seed: u64,
    /// Fault mode: faults are armed from this step on; plan indices count LP calls from there
    pub fault_from_step: usize,
    pub fault_plan: FaultPlan,
    /// Legal mode: the backend may also answer with points inside its own feasibility tolerance
    /// (<= 1e-7 absolute) but outside the library's 1e-8 (exercises the witness repair without a fault)
    #[serde(default)]
    pub legal_tolerance_answers: bool,
    /// Fault mode: un-faulted calls are answered with a different correct witness (see lpseam)
    #[serde(default)]
    pub legal_when_unfaulted: bool,
    /// float regime: coefficients are not exactly representable products; the reference of every
    /// step is the real library's own unpruned variant of the operation (snapshotted exactly)
    #[serde(default)]
    pub float_regime: bool,
}

#[derive(Clone, Debug, Serialize, Deserialize)]
pub struct PwlReplay {
    pub property: String,
    pub simulator: String,
    pub seed: u64,
    pub run_index: u64,
    pub scenario: Scenario,
    pub expected: Option<Violation>,
}

#[derive(Clone, Copy, Debug, PartialEq, Eq)]
pub enum Clause {
    Function,
    Structure,
    Cache,
    Effective,
}

fn property_of(mode: Mode, faults_armed: bool, c: Clause) -> &'static str {
    if mode == Mode::Fault && faults_armed {
        return "C11";
    }
    match c {
        Clause::Function => "C03",
        Clause::Structure => "C04",
        Clause::Cache => "C05",
        Clause::Effective => "C06",
    }
}

#[derive(Default, Debug, Clone, Serialize, Deserialize)]
pub struct PwlStats {
    pub runs: u64,
    pub steps: u64,
    pub steps_by_op: BTreeMap<String, u64>,
    pub runs_by_mode: BTreeMap<String, u64>,
    pub float_regime_runs: u64,
    pub ctor_kinds: BTreeMap<String, u64>,
    pub pruning_steps: u64,
    pub pruning_steps_that_removed_nodes: u64,
    pub partial_trees_pruned: u64,
    pub lp_calls: u64,
    pub lp_answers_replaced_legal: BTreeMap<String, u64>,
    pub faults_configured: BTreeMap<String, u64>,
    pub faults_fired: BTreeMap<String, u64>,
    pub faults_fired_changed_answer: BTreeMap<String, u64>,
    pub fault_contexts: BTreeMap<String, u64>,
    pub probes: BTreeMap<String, u64>,
    pub walk_cells: u64,
    pub walk_fat_leaf_cells: u64,
    pub walk_thin_or_empty_cells: u64,
    pub nonpruning_selfchecks: u64,
    pub nonpruning_mismatches: u64,
    pub unconfirmed_disagreements: u64,
    pub discarded_runs: BTreeMap<String, u64>,
    pub cache_witness_nodes: u64,
    pub cache_witnesses_checked: u64,
    pub cache_witnesses_in_tolerance_band: u64,
    pub cache_infeasible_marks_checked: u64,
    pub cache_feasible_no_witness_nodes: u64,
    pub mirror_probes: u64,
    pub mirror_probe_points_returned: u64,
    pub c06_checked: u64,
    pub c06_skipped_precondition: u64,
    pub c06_nodes_examined: u64,
    pub c06_thin_nodes_kept: u64,
    pub c06_idempotence_checked: u64,
    pub c06_region_bounds_checked: u64,
    pub audit_calls: u64,
    pub audit_exact_empty: u64,
    pub audit_exact_thin: u64,
    pub audit_exact_fat: u64,
    pub audit_backend_disagreements: u64,
    pub audit_backend_points_outside_tolerance: u64,
    pub audit_path_polytopes_matched: u64,
    pub max_nodes: usize,
    pub elim_counter: BTreeMap<String, u64>,
    pub recovery_checked: u64,
    pub recovery_full: u64,
    /// wrapping sum of the per-run event-log digests: equal iff every run logged the same events
    pub event_digest_sum: u64,
    pub events_logged: u64,
    #[serde(skip)]
    pub state_hashes: BTreeSet<u64>,
    #[serde(skip)]
    pub nontrivial_hashes: BTreeSet<u64>,
}

fn bump(m: &mut BTreeMap<String, u64>, k: &str, v: u64) {
    if v > 0 {
        *m.entry(k.to_string()).or_default() += v;
    }
}

impl PwlStats {
    pub fn merge(&mut self, o: PwlStats) {
        macro_rules! add {
            ($($f:ident),*) => { $( self.$f += o.$f; )* };
        }
        macro_rules! addmap {
            ($($f:ident),*) => { $( for (k, v) in o.$f { *self.$f.entry(k).or_default() += v; } )* };
        }
        add!(
            runs, float_regime_runs, steps, pruning_steps, pruning_steps_that_removed_nodes, partial_trees_pruned, lp_calls, walk_cells,
            walk_fat_leaf_cells, walk_thin_or_empty_cells, nonpruning_selfchecks, nonpruning_mismatches,
            unconfirmed_disagreements, cache_witness_nodes, cache_witnesses_checked, cache_witnesses_in_tolerance_band,
            cache_infeasible_marks_checked, cache_feasible_no_witness_nodes, mirror_probes, mirror_probe_points_returned,
            c06_checked, c06_skipped_precondition, c06_nodes_examined, c06_thin_nodes_kept, c06_idempotence_checked,
            c06_region_bounds_checked, audit_calls, audit_exact_empty, audit_exact_thin, audit_exact_fat,
            audit_backend_disagreements, audit_backend_points_outside_tolerance, audit_path_polytopes_matched, recovery_checked, recovery_full
        );
        addmap!(
            steps_by_op, runs_by_mode, ctor_kinds, lp_answers_replaced_legal, faults_configured, faults_fired,
            faults_fired_changed_answer, fault_contexts, probes, discarded_runs, elim_counter
        );
        self.max_nodes = self.max_nodes.max(o.max_nodes);
        self.event_digest_sum = self.event_digest_sum.wrapping_add(o.event_digest_sum);
        self.events_logged += o.events_logged;
        self.state_hashes.extend(o.state_hashes);
        self.nontrivial_hashes.extend(o.nontrivial_hashes);
    }
}

/// How to evaluate the reference function on the *real* code for confirmation.
enum RefEval {
    Before(AffTree<2>),
    Seq(AffTree<2>, AffTree<2>),
    AffAfter(AffTree<2>, AffFunc),
    Pointwise(AffTree<2>, AffTree<2>, BinKind),
    ModelOnly,
}

impl RefEval {
    fn eval(&self, x: &Array1<f64>) -> Option<Option<Array1<f64>>> {
        match self {
            RefEval::Before(t) => Some(t.evaluate(x)),
            RefEval::Seq(a, b) => Some(a.evaluate(x).and_then(|y| b.evaluate(&y))),
            RefEval::AffAfter(t, f) => Some(t.evaluate(x).map(|y| f.apply(&y))),
            RefEval::Pointwise(a, b, kind) => match kind {
                BinKind::Add => Some(match (a.evaluate(x), b.evaluate(x)) {
                    (Some(u), Some(v)) => Some(u + v),
                    _ => None,
                }),
                BinKind::Sub => Some(match (a.evaluate(x), b.evaluate(x)) {
                    (Some(u), Some(v)) => Some(u - v),
                    _ => None,
                }),
                BinKind::Mul => None,
            },
            RefEval::ModelOnly => None,
        }
    }
}

thread_local! {
    /// an ill-formed schema tree noticed while building an operand (reported by the step that used it)
    static SCHEMA_FAULT: std::cell::RefCell<Option<(String, String)>> = const { std::cell::RefCell::new(None) };
}

pub struct StepReport {
    pub violations: Vec<Violation>,
    /// the run cannot continue (panic, ill-formed tree, incompatible literal op)
    pub stop: bool,
    /// the step was not dimension-compatible (only literal histories produced by the minimiser)
    pub invalid: bool,
}

pub struct Exec {
    pub pool: Vec<AffTree<2>>,
    pub models: Vec<ModelTree>,
    pub mode: Mode,
    pub seam: Seam,
    pub probe_rng: Prng,
    pub step_no: usize,
    pub stats: PwlStats,
    /// run full oracles (false: only execute, e.g. the prefix of a C11 scenario)
    pub check: bool,
    pub records_all: Vec<LpRecord>,
    /// LP records of the operation that is being judged (set by absorb_records)
    pub last_records: Vec<LpRecord>,
    pub removed_any: bool,
    pub selfcheck_pm: usize,
    /// the property the running check judges: violations of *other* properties are recorded but do
    /// not end the run (unless the tree is unusable), so that they cannot mask a later violation
    pub focus: Option<String>,
    pub float: bool,
    /// violations found while building the pool (a constructor that yields an ill-formed tree)
    pub initial_violations: Vec<Violation>,
    /// LP answers discarded by the last elimination (float regime: effectiveness is then not judged)
    pub last_lps_error: usize,
}

fn aff_q(l: &AffLit) -> AffQ {
    AffQ {
        indim: l.indim,
        mat: l.mat.iter().map(|r| r.iter().map(|v| Q::from_f64(*v)).collect()).collect(),
        bias: l.bias.iter().map(|v| Q::from_f64(*v)).collect(),
    }
}

fn model_leaf_classes(t: &ModelTree) -> (usize, usize) {
    // (#leaves whose closed reported region is not EMPTY, #leaves total)
    fn rec(dim: usize, t: &RTree, region: &mut Vec<Row>, acc: &mut (usize, usize)) {
        match t {
            RTree::Undef => {}
            RTree::Leaf(_) => {
                acc.1 += 1;
                if width(dim, region).class() != Class::Empty {
                    acc.0 += 1;
                }
            }
            RTree::Node { pred, c0, c1 } => {
                if width(dim, region).class() == Class::Empty {
                    // everything below is empty as well
                    let mut ls = Vec::new();
                    t.leaves(&mut ls);
                    acc.1 += ls.len();
                    return;
                }
                region.push(pred.negated());
                rec(dim, c0, region, acc);
                region.pop();
                region.push(pred.clone());
                rec(dim, c1, region, acc);
                region.pop();
            }
        }
    }
    let mut acc = (0, 0);
    rec(t.in_dim, &t.root, &mut Vec::new(), &mut acc);
    acc
}

impl Exec {
    pub fn new(sc: &Scenario, stats_mode_label: bool) -> Result<Exec, String> {
        let mut seed_rng = Prng::new(sc.seam_seed);
        let seam_rng = seed_rng.fork(1);
        let probe_rng = seed_rng.fork(2);
        let seam = lpseam::install(sc.mode, sc.fault_plan.clone(), seam_rng);
        seam.borrow_mut().faults_armed = false;
        seam.borrow_mut().tolerance_answers = sc.legal_tolerance_answers;
        seam.borrow_mut().legal_when_unfaulted = sc.legal_when_unfaulted;
        let mut pool = Vec::new();
        let mut models = Vec::new();
        let mut stats = PwlStats::default();
        let mut initial_violations = Vec::new();
        for c in &sc.pool {
            let t = guarded(|| c.build()).map_err(|p| format!("constructor panicked: {}", panic_site(&p)))?;
            // C04 starts at the constructors: their trees must be well-formed already
            let want_out = match c {
                Ctor::Schema { schema } => Some(schema.out_dim()),
                _ => t.terminals().map(|x| x.aff.outdim()).next(),
            };
            if let Err((class, detail)) = oracle::check_wellformed(&t, t.in_dim(), want_out, None) {
                initial_violations.push(Violation {
                    property: "C04".into(),
                    class,
                    site: format!("constructor:{}", c.short()),
                    step: 0,
                    detail,
                });
            }
            let m = ModelTree::snapshot(&t)?;
            bump(&mut stats.ctor_kinds, c.short(), 1);
            pool.push(t);
            models.push(m);
        }
        if stats_mode_label {
            bump(&mut stats.runs_by_mode, &format!("{:?}", sc.mode).to_lowercase(), 1);
            if sc.float_regime {
                stats.float_regime_runs += 1;
            }
        }
        Ok(Exec {
            pool,
            models,
            mode: sc.mode,
            seam,
            probe_rng,
            step_no: 0,
            stats,
            check: true,
            records_all: Vec::new(),
            last_records: Vec::new(),
            removed_any: false,
            selfcheck_pm: 150,
            focus: None,
            float: sc.float_regime,
            initial_violations,
            last_lps_error: 0,
        })
    }

    pub fn slot_infos(&self) -> Vec<SlotInfo> {
        self.models
            .iter()
            .map(|m| SlotInfo {
                in_dim: m.in_dim,
                out_dim: m.out_dim().unwrap_or(0),
                leaves: m.num_leaves(),
                nodes: m.root.count_nodes(),
                fits12: self.float || m.max_fixed(12, 12),
                fits24: self.float || m.max_fixed(24, 24),
            })
            .collect()
    }

    fn faults_armed(&self) -> bool {
        self.seam.borrow().faults_armed
    }

    /// Float regime: FAT judgments are made inside the box |x_j| <= 1e4 (see model::walk_in_box).
    fn fat_box(&self) -> Option<f64> {
        if self.float {
            Some(1e4)
        } else {
            None
        }
    }

    /// Does a violation of `clause` end the run?
    fn stops(&self, clause: Clause) -> bool {
        match &self.focus {
            None => true,
            Some(f) => clause == Clause::Structure || f == property_of(self.mode, self.faults_armed(), clause),
        }
    }

    fn viol(&self, clause: Clause, class: &str, site: &str, detail: String) -> Violation {
        Violation {
            property: property_of(self.mode, self.faults_armed(), clause).to_string(),
            class: class.to_string(),
            site: site.to_string(),
            step: self.step_no,
            detail,
        }
    }

    fn other_tree(&self, arg: &TreeArg) -> Result<AffTree<2>, String> {
        match arg {
            TreeArg::Schema { schema } => {
                let t = guarded(|| schema.build()).map_err(|p| format!("schema constructor panicked: {p}"))?;
                if let Err((class, detail)) = oracle::check_wellformed(&t, schema.in_dim(), Some(schema.out_dim()), None) {
                    SCHEMA_FAULT.with(|f| *f.borrow_mut() = Some((class, format!("{}: {detail}", schema.short()))));
                }
                Ok(t)
            }
            TreeArg::Slot { slot } => self.pool.get(*slot).cloned().ok_or_else(|| "bad slot".to_string()),
        }
    }

    /// Confirms a model-level disagreement on the real code. Ok(detail) if the real result differs
    /// from the reference at a concrete input; Err(why) if it cannot be confirmed.
    fn confirm(&self, d: &Disagreement, result: &AffTree<2>, result_model: &ModelTree, expected: &ModelTree, refeval: &RefEval) -> Result<String, String> {
        let mut last_err = String::new();
        for p in d.candidate_points() {
            match self.confirm_at(d, &p, result, result_model, expected, refeval) {
                Ok(s) => return Ok(s),
                Err(e) => last_err = e,
            }
        }
        Err(last_err)
    }

    fn confirm_at(&self, d: &Disagreement, point: &[Q], result: &AffTree<2>, result_model: &ModelTree, expected: &ModelTree, refeval: &RefEval) -> Result<String, String> {
        let x = Array1::from_vec(point.iter().map(|q| q.to_f64()).collect::<Vec<f64>>());
        let xq: Vec<Q> = x.iter().map(|v| Q::from_f64(*v)).collect();
        // the rounded point must still separate the two model trees
        let m_res = result_model.root.eval(&xq);
        let m_exp = expected.root.eval(&xq);
        if m_res == m_exp {
            return Err(format!("the two functions happen to agree at the interior point {:?}", x.to_vec()));
        }
        let real = guarded(|| result.evaluate(&x)).map_err(|p| format!("evaluate panicked: {p}"))?;
        let reference: Option<Array1<f64>> = match guarded(|| refeval.eval(&x)) {
            Ok(Some(r)) => r,
            Ok(None) => m_exp.as_ref().map(|v| Array1::from_vec(v.iter().map(|q| q.to_f64()).collect())),
            Err(p) => return Err(format!("reference evaluation panicked: {p}")),
        };
        let differs = match (&real, &reference) {
            (None, None) => false,
            (Some(a), Some(b)) => {
                a.len() != b.len() || a.iter().zip(b.iter()).any(|(u, v)| (u - v).abs() > 1e-9 * (1.0 + u.abs().max(v.abs())))
            }
            _ => true,
        };
        if !differs {
            return Err(format!("real code agrees with its reference at {:?} ({:?})", x.to_vec(), real.map(|a| a.to_vec())));
        }
        Ok(format!(
            "{} differs at input {:?} (region l1-width {:.3e}): result evaluates to {:?}, reference to {:?}",
            d.kind,
            x.to_vec(),
            d.rho.to_f64(),
            real.map(|a| a.to_vec()),
            reference.map(|a| a.to_vec())
        ))
    }

    /// (call index, rows) of an LP call of the current operation in which the real backend said
    /// Infeasible for a system whose rows all have unit norm (or are zero) and which the exact LP
    /// finds FAT (inside the float-regime box, or inside |x| <= 1e6 otherwise).
    fn refuted_infeasible_answer(&self) -> Option<(usize, usize)> {
        for r in &self.last_records {
            if !r.zero_objective || r.real != lpseam::StatusKind::Infeasible || r.returned != lpseam::StatusKind::Infeasible || r.fault_family.is_some() {
                continue;
            }
            let dim = r.mat.first().map(|x| x.len()).unwrap_or(0);
            if dim == 0 || r.mat.iter().flatten().chain(r.bias.iter()).any(|v| !v.is_finite()) {
                continue;
            }
            let unit = r.mat.iter().all(|row| {
                let n: f64 = row.iter().map(|v| v * v).sum::<f64>().sqrt();
                n == 0.0 || (n - 1.0).abs() < 1e-9
            });
            if !unit {
                continue;
            }
            let mut rows = lpseam::rows_of(&r.mat, &r.bias);
            rows.extend(crate::model::box_rows(dim, self.fat_box().unwrap_or(1e6)));
            if width(dim, &rows).class() == Class::Fat {
                return Some((r.index, r.bias.len()));
            }
        }
        None
    }

    /// The mirror image: (call index, rows) of an LP call of the current operation in which the real
    /// backend said Optimal for a system whose rows all have unit norm (or are zero) and which the
    /// exact LP finds EMPTY (no box: emptiness is judged on the whole space).
    fn refuted_optimal_answer(&self) -> Option<(usize, usize)> {
        for r in &self.last_records {
            if !r.zero_objective || r.real != lpseam::StatusKind::Optimal || r.returned != lpseam::StatusKind::Optimal || r.fault_family.is_some() || r.action.is_some() {
                continue;
            }
            let dim = r.mat.first().map(|x| x.len()).unwrap_or(0);
            if dim == 0 || r.mat.iter().flatten().chain(r.bias.iter()).any(|v| !v.is_finite()) {
                continue;
            }
            let unit = r.mat.iter().all(|row| {
                let n: f64 = row.iter().map(|v| v * v).sum::<f64>().sqrt();
                n == 0.0 || (n - 1.0).abs() < 1e-9
            });
            if !unit {
                continue;
            }
            let rows = lpseam::rows_of(&r.mat, &r.bias);
            if width(dim, &rows).class() == Class::Empty {
                return Some((r.index, r.bias.len()));
            }
        }
        None
    }

    fn attribute_optimal(&self, class: &str, detail: String) -> (String, String) {
        match self.refuted_optimal_answer() {
            Some(r) => (
                format!("{class}_after_refuted_optimal_answer"),
                format!("{detail}; LP call #{} ({} unit-norm rows) was answered Optimal by the real backend although the exact LP proves the system empty", r.0, r.1),
            ),
            None => (class.to_string(), detail),
        }
    }

    /// Root-cause attribution (DESIGN.md 6.13): if the real backend, during the current operation,
    /// answered Infeasible for a row-normalized system that the exact LP proves FAT, the violation
    /// class says so - that is what the open backend finding is keyed on.
    fn attribute(&self, class: &str, detail: String) -> (String, String) {
        match self.refuted_infeasible_answer() {
            Some(r) => (
                format!("{class}_after_refuted_infeasible_answer"),
                format!("{detail}; LP call #{} ({} unit-norm rows) was answered Infeasible by the real backend although the exact LP finds an interior point", r.0, r.1),
            ),
            None => (class.to_string(), detail),
        }
    }

    fn absorb_records(&mut self) -> Vec<LpRecord> {
        let recs = lpseam::take_records(&self.seam);
        self.last_records = recs.clone();
        self.stats.lp_calls += recs.len() as u64;
        for r in &recs {
            event(&format!(
                "lp #{} rows={} real={:?} returned={:?} action={:?} witness={:?}",
                r.index,
                r.bias.len(),
                r.real,
                r.returned,
                r.action,
                r.returned_witness.as_ref().map(|w| w.iter().map(|v| v.to_bits()).collect::<Vec<u64>>())
            ));
            if let Some(a) = &r.action {
                if self.mode == Mode::Legal {
                    bump(&mut self.stats.lp_answers_replaced_legal, a, 1);
                }
            }
            if let Some(f) = r.fault_family {
                bump(&mut self.stats.faults_fired, f, 1);
                if r.changed {
                    bump(&mut self.stats.faults_fired_changed_answer, f, 1);
                }
                bump(&mut self.stats.fault_contexts, &format!("{}|real={:?}|rows={}", f, r.real, r.bias.len().min(9)), 1);
            }
        }
        recs
    }

    /// Common post-step oracles. `slot` holds the real result.
    #[allow(clippy::too_many_arguments)]
    fn finish(
        &mut self,
        slot: usize,
        site: &str,
        real: Result<(), String>,
        expected: &ModelTree,
        prunes: bool,
        refeval: RefEval,
        nodes_before: usize,
        out: &mut StepReport,
    ) -> Option<ModelTree> {
        if let Err(p) = real {
            out.violations.push(self.viol(
                Clause::Structure,
                "panic",
                site,
                format!("dimension-compatible operation panicked at {}", panic_site(&p)),
            ));
            out.stop = true;
            return None;
        }
        // C04: well-formedness
        let leafset = expected.leaf_set();
        if let Err((class, detail)) = oracle::check_wellformed(&self.pool[slot], expected.in_dim, expected.out_dim(), Some(&leafset)) {
            out.violations.push(self.viol(Clause::Structure, &class, site, detail));
            out.stop = true;
            // the function oracle may still be able to say something
        }
        let result_model = match ModelTree::snapshot(&self.pool[slot]) {
            Ok(m) => m,
            Err(e) => {
                if !out.stop {
                    out.violations.push(self.viol(Clause::Structure, "ill_formed", site, e));
                }
                out.stop = true;
                return None;
            }
        };
        self.stats.max_nodes = self.stats.max_nodes.max(self.pool[slot].len());
        // C05: caches
        if !out.stop {
            match oracle::check_caches(&self.pool[slot], self.fat_box()) {
                Ok(cs) => self.absorb_cache_stats(&cs),
                Err((class, detail)) => {
                    let (class, detail) = if class == "infeasible_mark_on_fat_region" { self.attribute(&class, detail) } else { (class, detail) };
                    out.violations.push(self.viol(Clause::Cache, &class, site, detail));
                    if self.stops(Clause::Cache) {
                        out.stop = true;
                    }
                }
            }
        }
        // C03 (or harness self-check for non-pruning steps): function
        let do_walk = prunes || self.probe_rng.chance(self.selfcheck_pm, 1000);
        if do_walk && result_model.in_dim == expected.in_dim {
            let mut ws = WalkStats::default();
            let dis = walk_in_box(&result_model, expected, self.fat_box(), &mut ws);
            self.stats.walk_cells += ws.cells;
            self.stats.walk_fat_leaf_cells += ws.fat_leaf_cells;
            self.stats.walk_thin_or_empty_cells += ws.thin_or_empty_cells;
            if !prunes {
                self.stats.nonpruning_selfchecks += 1;
            }
            if let Some(d) = dis {
                match self.confirm(&d, &self.pool[slot], &result_model, expected, &refeval) {
                    Ok(detail) => {
                        if prunes {
                            let class = if d.kind == "definedness" { "definedness_changed" } else { "function_changed" };
                            let (class, detail) = self.attribute(class, detail);
                            let class = class.as_str();
                            out.violations.push(self.viol(Clause::Function, class, site, detail));
                            if self.stops(Clause::Function) {
                                out.stop = true;
                            }
                        } else {
                            self.stats.nonpruning_mismatches += 1;
                            out.stop = true;
                        }
                    }
                    Err(why) => {
                        self.stats.unconfirmed_disagreements += 1;
                        bump(&mut self.stats.probes, &format!("unconfirmed: {why}"), 1);
                        out.stop = true;
                    }
                }
            }
        }
        if prunes {
            self.stats.pruning_steps += 1;
            let now = self.pool[slot].len();
            let unpruned = expected.root.count_nodes();
            if now < unpruned || now < nodes_before {
                self.stats.pruning_steps_that_removed_nodes += 1;
                self.removed_any = true;
            }
            if !expected.is_total() {
                self.stats.partial_trees_pruned += 1;
            }
        }
        self.stats.state_hashes.insert(oracle::state_hash(&self.pool[slot]));
        Some(result_model)
    }

    fn absorb_cache_stats(&mut self, cs: &CacheStats) {
        self.stats.cache_witness_nodes += cs.witness_nodes;
        self.stats.cache_witnesses_checked += cs.witnesses;
        self.stats.cache_witnesses_in_tolerance_band += cs.witnesses_in_tolerance_band;
        self.stats.cache_infeasible_marks_checked += cs.infeasible_nodes;
        self.stats.cache_feasible_no_witness_nodes += cs.feasible_nodes;
    }

    fn absorb_audit(&mut self, a: &AuditStats) {
        self.stats.audit_calls += a.calls;
        self.stats.audit_exact_empty += a.exact_empty;
        self.stats.audit_exact_thin += a.exact_thin;
        self.stats.audit_exact_fat += a.exact_fat;
        self.stats.audit_backend_disagreements += a.backend_disagreements;
        self.stats.audit_backend_points_outside_tolerance += a.backend_points_outside_tolerance;
        self.stats.audit_path_polytopes_matched += a.path_polytopes_matched;
    }

    /// Executes one operation and evaluates the oracles.
    pub fn step(&mut self, op: &Op) -> StepReport {
        let mut out = StepReport { violations: Vec::new(), stop: false, invalid: false };
        let site = op.name();
        self.stats.steps += 1;
        bump(&mut self.stats.steps_by_op, &site, 1);
        macro_rules! invalid {
            () => {{
                out.invalid = true;
                out.stop = true;
                return out;
            }};
        }
        let n_slots = self.pool.len();
        match op {
            Op::ApplyFunc { slot, aff } => {
                if *slot >= n_slots {
                    invalid!();
                }
                let Ok(expected) = (if self.float { self.float_reference(op) } else { self.models[*slot].apply_func(&aff_q(aff)) }) else { invalid!() };
                let before = self.pool[*slot].clone();
                let f = aff.to_aff();
                let r = guarded(|| self.pool[*slot].apply_func(&f));
                self.absorb_records();
                let nb = before.len();
                if let Some(m) = self.finish(*slot, &site, r, &expected, false, RefEval::AffAfter(before, f), nb, &mut out) {
                    self.models[*slot] = m;
                }
            }
            Op::Compose { slot, prune, other } => {
                if *slot >= n_slots {
                    invalid!();
                }
                let Ok(other_tree) = self.other_tree(other) else { invalid!() };
                let Ok(other_model) = ModelTree::snapshot(&other_tree) else { invalid!() };
                if self.models[*slot].out_dim() != Some(other_model.in_dim) {
                    invalid!();
                }
                let Ok(expected) = (if self.float { self.float_reference(op) } else { self.models[*slot].compose(&other_model) }) else { invalid!() };
                let before = self.pool[*slot].clone();
                let r = guarded(|| {
                    if *prune {
                        self.pool[*slot].compose::<true, false>(&other_tree)
                    } else {
                        self.pool[*slot].compose::<false, false>(&other_tree)
                    }
                });
                let recs = self.absorb_records();
                let mut a = AuditStats::default();
                let _ = oracle::audit(&recs, None, &mut a, self.fat_box());
                self.absorb_audit(&a);
                let nb = before.len();
                if let Some(m) = self.finish(*slot, &site, r, &expected, *prune, RefEval::Seq(before, other_tree), nb, &mut out) {
                    self.models[*slot] = m;
                }
            }
            Op::Eliminate { slot } => {
                if *slot >= n_slots {
                    invalid!();
                }
                let expected = self.models[*slot].clone();
                let before = self.pool[*slot].clone();
                let pre_paths = oracle::node_paths_bits(&before);
                let (pre_a, pre_b) = c06_preconditions(&before);
                let r = guarded(|| self.pool[*slot].infeasible_elimination());
                let recs = self.absorb_records();
                let r = match r {
                    Ok(counter) => {
                        bump(&mut self.stats.elim_counter, "nodes_checked", counter.nodes_checked as u64);
                        bump(&mut self.stats.elim_counter, "cached_state", counter.cached_state as u64);
                        bump(&mut self.stats.elim_counter, "skipped_nodes", counter.skipped_nodes as u64);
                        bump(&mut self.stats.elim_counter, "parent_sol_inherited", counter.parent_sol_inherited as u64);
                        bump(&mut self.stats.elim_counter, "mirror_heuristic_hits", counter.mirror_iter.len() as u64);
                        bump(&mut self.stats.elim_counter, "lps_solved", counter.lps_solved as u64);
                        bump(&mut self.stats.elim_counter, "lps_feasible", counter.lps_feasible as u64);
                        bump(&mut self.stats.elim_counter, "lps_infeasible", counter.lps_infeasible as u64);
                        bump(&mut self.stats.elim_counter, "lps_error", counter.lps_error as u64);
                        self.last_lps_error = counter.lps_error;
                        Ok(())
                    }
                    Err(p) => Err(p),
                };
                let nb = before.len();
                let ok = r.is_ok();
                let m = self.finish(*slot, &site, r, &expected, true, RefEval::Before(before), nb, &mut out);
                if ok {
                    // LP audit: every polytope handed to the backend is a path polytope of the pre-step tree
                    let mut a = AuditStats::default();
                    let res = oracle::audit(&recs, Some(&pre_paths), &mut a, self.fat_box());
                    self.absorb_audit(&a);
                    if let Err((class, detail)) = res {
                        out.violations.push(self.viol(Clause::Cache, &class, &site, detail));
                        if self.stops(Clause::Cache) {
                            out.stop = true;
                        }
                    }
                }
                if let Some(m) = m {
                    if !out.stop && self.check {
                        self.c06_after_elimination(*slot, &site, pre_a, pre_b, &mut out);
                    }
                    self.models[*slot] = m;
                }
            }
            Op::Reduce { slot } => {
                if *slot >= n_slots {
                    invalid!();
                }
                let expected = self.models[*slot].clone();
                let before = self.pool[*slot].clone();
                let r = guarded(|| self.pool[*slot].reduce());
                self.absorb_records();
                let nb = before.len();
                if r.is_ok() && self.pool[*slot].len() < nb {
                    bump(&mut self.stats.probes, "reduce_merged_nodes", 1);
                }
                if let Some(m) = self.finish(*slot, &site, r, &expected, false, RefEval::Before(before), nb, &mut out) {
                    self.models[*slot] = m;
                }
            }
            Op::Bin { kind, slot, other } => {
                if *slot >= n_slots {
                    invalid!();
                }
                let Ok(other_tree) = self.other_tree(other) else { invalid!() };
                let Ok(other_model) = ModelTree::snapshot(&other_tree) else { invalid!() };
                let me = &self.models[*slot];
                if me.in_dim != other_model.in_dim || me.out_dim().is_none() || me.out_dim() != other_model.out_dim() {
                    invalid!();
                }
                let Ok(expected) = (if self.float { self.float_reference(op) } else { me.lift(&other_model, *kind) }) else { invalid!() };
                let before = self.pool[*slot].clone();
                let taken = std::mem::replace(&mut self.pool[*slot], AffTree::<2>::new(1));
                let r = guarded(|| match kind {
                    BinKind::Add => taken + &other_tree,
                    BinKind::Sub => taken - &other_tree,
                    BinKind::Mul => taken * &other_tree,
                });
                let recs = self.absorb_records();
                let mut a = AuditStats::default();
                let _ = oracle::audit(&recs, None, &mut a, self.fat_box());
                self.absorb_audit(&a);
                let r = match r {
                    Ok(t) => {
                        self.pool[*slot] = t;
                        Ok(())
                    }
                    Err(p) => Err(p),
                };
                let nb = before.len();
                if let Some(m) = self.finish(*slot, &site, r, &expected, true, RefEval::Pointwise(before, other_tree, *kind), nb, &mut out) {
                    self.models[*slot] = m;
                }
            }
            Op::Neg { slot } => {
                if *slot >= n_slots {
                    invalid!();
                }
                let Ok(expected) = (if self.float { self.float_reference(op) } else { self.models[*slot].map(&mut |f| Ok(f.neg())) }) else { invalid!() };
                let nb = self.pool[*slot].len();
                let taken = std::mem::replace(&mut self.pool[*slot], AffTree::<2>::new(1));
                let r = guarded(|| -taken);
                self.absorb_records();
                let r = match r {
                    Ok(t) => {
                        self.pool[*slot] = t;
                        Ok(())
                    }
                    Err(p) => Err(p),
                };
                if let Some(m) = self.finish(*slot, &site, r, &expected, false, RefEval::ModelOnly, nb, &mut out) {
                    self.models[*slot] = m;
                }
            }
            Op::Scalar { kind, slot, aff, aff_left } => {
                if *slot >= n_slots {
                    invalid!();
                }
                let g = aff_q(aff);
                let me = &self.models[*slot];
                if me.in_dim != g.indim || me.out_dim() != Some(g.outdim()) {
                    invalid!();
                }
                let Ok(expected) = (if self.float { self.float_reference(op) } else { me.map(&mut |f| if *aff_left { g.elementwise(f, *kind) } else { f.elementwise(&g, *kind) }) }) else {
                    invalid!()
                };
                let nb = self.pool[*slot].len();
                let taken = std::mem::replace(&mut self.pool[*slot], AffTree::<2>::new(1));
                let f = aff.to_aff();
                let r = guarded(|| match (kind, aff_left) {
                    (BinKind::Add, false) => taken + &f,
                    (BinKind::Sub, false) => taken - &f,
                    (BinKind::Mul, false) => taken * &f,
                    (BinKind::Add, true) => &f + taken,
                    (BinKind::Sub, true) => &f - taken,
                    (BinKind::Mul, true) => &f * taken,
                });
                self.absorb_records();
                let r = match r {
                    Ok(t) => {
                        self.pool[*slot] = t;
                        Ok(())
                    }
                    Err(p) => Err(p),
                };
                if let Some(m) = self.finish(*slot, &site, r, &expected, false, RefEval::ModelOnly, nb, &mut out) {
                    self.models[*slot] = m;
                }
            }
            Op::CloneTo { from, to } => {
                if *from >= n_slots || *to >= n_slots || from == to {
                    invalid!();
                }
                let expected = self.models[*from].clone();
                let src = self.pool[*from].clone();
                let nb = src.len();
                let r = guarded(|| src.clone());
                let r = match r {
                    Ok(t) => {
                        self.pool[*to] = t;
                        Ok(())
                    }
                    Err(p) => Err(p),
                };
                if let Some(m) = self.finish(*to, &site, r, &expected, false, RefEval::Before(src), nb, &mut out) {
                    self.models[*to] = m;
                }
            }
            Op::Slice { slot, point } => {
                if *slot >= n_slots {
                    invalid!();
                }
                let me = self.models[*slot].clone();
                if point.len() != me.in_dim || point.iter().all(|p| p.is_some()) || point.iter().all(|p| p.is_none()) {
                    invalid!();
                }
                let pq: Vec<Option<Q>> = point.iter().map(|p| p.map(Q::from_f64)).collect();
                let expected = if self.float {
                    match self.float_reference(op) {
                        Ok(m) => m,
                        Err(_) => invalid!(),
                    }
                } else {
                    me.slice(&pq)
                };
                let target = self.pool[*slot].clone();
                let nb = target.len();
                let pt = slice_point(point);
                let mask = Array1::from_vec(point.iter().map(|p| p.is_none()).collect::<Vec<bool>>());
                let mut mid_paths = None;
                let r = guarded(|| {
                    let mut s = AffTree::<2>::from_slice(&pt);
                    s.compose::<false, false>(&target);
                    mid_paths = Some(oracle::node_paths_bits(&s));
                    s.infeasible_elimination();
                    s.remove_axes(&mask).expect("mask has the tree's input dimension");
                    s
                });
                let recs = self.absorb_records();
                let r = match r {
                    Ok(t) => {
                        self.pool[*slot] = t;
                        Ok(())
                    }
                    Err(p) => Err(p),
                };
                let ok = r.is_ok();
                let m = self.finish(*slot, &site, r, &expected, true, RefEval::ModelOnly, nb, &mut out);
                if ok {
                    let mut a = AuditStats::default();
                    let res = oracle::audit(&recs, mid_paths.as_ref(), &mut a, self.fat_box());
                    self.absorb_audit(&a);
                    if let Err((class, detail)) = res {
                        out.violations.push(self.viol(Clause::Cache, &class, &site, detail));
                        if self.stops(Clause::Cache) {
                            out.stop = true;
                        }
                    }
                }
                if let Some(m) = m {
                    self.models[*slot] = m;
                }
            }
            Op::RemoveAxes { slot, keep } => {
                if *slot >= n_slots {
                    invalid!();
                }
                let me = self.models[*slot].clone();
                if keep.len() != me.in_dim || keep.iter().all(|k| *k) || keep.iter().all(|k| !*k) {
                    invalid!();
                }
                // dropping a column = fixing that coordinate to 0
                let pq: Vec<Option<Q>> = keep.iter().map(|k| if *k { None } else { Some(Q::zero()) }).collect();
                let expected = if self.float {
                    match self.float_reference(op) {
                        Ok(m) => m,
                        Err(_) => invalid!(),
                    }
                } else {
                    me.slice(&pq)
                };
                let nb = self.pool[*slot].len();
                let mask = Array1::from_vec(keep.clone());
                let r = guarded(|| self.pool[*slot].remove_axes(&mask).expect("mask has the tree's input dimension"));
                self.absorb_records();
                if let Some(m) = self.finish(*slot, &site, r, &expected, false, RefEval::ModelOnly, nb, &mut out) {
                    self.models[*slot] = m;
                }
            }
            Op::Pipeline { slot, dim, layers, pre } => {
                if *slot >= n_slots {
                    invalid!();
                }
                let discarded_before = crate::logprobe::discarded_answers();
                // reference: identity (or the precondition), then layer by layer without pruning
                let pre_tree = match pre {
                    Some(c) => match guarded(|| c.build()) {
                        Ok(t) => Some(t),
                        Err(_) => invalid!(),
                    },
                    None => None,
                };
                let mut model = match &pre_tree {
                    Some(t) => match ModelTree::snapshot(t) {
                        Ok(m) => m,
                        Err(_) => invalid!(),
                    },
                    None => ModelTree::snapshot(&AffTree::<2>::new(*dim)).expect("identity tree"),
                };
                if model.in_dim != *dim {
                    invalid!();
                }
                let total_pre = model.is_total();
                for l in layers {
                    let Some(cur) = model.out_dim() else { invalid!() };
                    let next = match l {
                        LayerLit::Linear { aff } => model.apply_func(&aff_q(aff)),
                        LayerLit::Relu { row } if *row < cur => self.model_of_schema(&SchemaLit::Relu { dim: cur, row: *row }).and_then(|s| model.compose(&s)),
                        LayerLit::LeakyRelu { row, alpha } if *row < cur => self
                            .model_of_schema(&SchemaLit::LeakyRelu { dim: cur, row: *row, alpha: *alpha })
                            .and_then(|s| model.compose(&s)),
                        LayerLit::HardTanh { row } if *row < cur => self
                            .model_of_schema(&SchemaLit::HardTanh { dim: cur, row: *row, min: -1.0, max: 1.0 })
                            .and_then(|s| model.compose(&s)),
                        LayerLit::ClassChar { clazz } if *clazz < cur && cur >= 2 => self
                            .model_of_schema(&SchemaLit::ClassChar { dim: cur, clazz: *clazz })
                            .and_then(|s| model.compose(&s)),
                        LayerLit::Argmax if cur >= 2 => self.model_of_schema(&SchemaLit::Argmax { dim: cur }).and_then(|s| model.compose(&s)),
                        _ => Err("layer index out of range".to_string()),
                    };
                    match next {
                        Ok(m) => model = m,
                        Err(_) => invalid!(),
                    }
                }
                let expected = if self.float {
                    match self.float_reference(op) {
                        Ok(m) => m,
                        Err(_) => invalid!(),
                    }
                } else {
                    model
                };
                let real_layers: Vec<_> = layers.iter().map(|l| l.build()).collect();
                let r = guarded(|| afftree_from_layers(*dim, &real_layers, pre_tree));
                let recs = self.absorb_records();
                let mut a = AuditStats::default();
                let _ = oracle::audit(&recs, None, &mut a, self.fat_box());
                self.absorb_audit(&a);
                let r = match r {
                    Ok(t) => {
                        self.pool[*slot] = t;
                        Ok(())
                    }
                    Err(p) => Err(p),
                };
                let ok = r.is_ok();
                let m = self.finish(*slot, &site, r, &expected, true, RefEval::ModelOnly, 0, &mut out);
                if let Some(m) = m {
                    if ok && !out.stop && total_pre && self.check && !(self.mode == Mode::Fault && self.faults_armed()) && !self.seam.borrow().tolerance_answers && (!self.float || crate::logprobe::discarded_answers() == discarded_before) {
                        // C06 (d): #full-dimensional regions <= #terminals <= #non-empty closed regions
                        let mut ws = WalkStats::default();
                        let fat = count_fat_leaves(&expected, self.fat_box(), &mut ws);
                        let (nonempty, _total) = model_leaf_classes(&expected);
                        let terms = self.pool[*slot].num_terminals();
                        self.stats.c06_region_bounds_checked += 1;
                        if terms < fat || terms > nonempty {
                            let detail = format!("distilled tree has {terms} terminals; the network has {fat} full-dimensional and {nonempty} non-empty closed activation regions");
                            let (class, detail) = if terms < fat {
                                self.attribute("terminal_count_outside_region_bounds", detail)
                            } else {
                                self.attribute_optimal("terminal_count_outside_region_bounds", detail)
                            };
                            out.violations.push(self.viol(Clause::Effective, &class, &site, detail));
                            if self.stops(Clause::Effective) {
                                out.stop = true;
                            }
                        }
                    }
                    self.models[*slot] = m;
                }
            }
        }
        if let Some((class, detail)) = SCHEMA_FAULT.with(|f| f.borrow_mut().take()) {
            out.violations.push(Violation {
                property: "C04".into(),
                class,
                site: format!("constructor:{}", detail.split(':').next().unwrap_or("schema")),
                step: self.step_no,
                detail,
            });
            out.stop = true;
        }
        if !out.stop && self.check {
            self.mirror_probe(&site, &mut out);
        }
        event(&format!(
            "step {} {} -> states {:?} violations {:?} stop={} invalid={}",
            self.step_no,
            site,
            self.pool.iter().map(oracle::state_hash).collect::<Vec<u64>>(),
            out.violations.iter().map(|v| v.key()).collect::<Vec<String>>(),
            out.stop,
            out.invalid
        ));
        self.step_no += 1;
        out
    }

    /// Float regime: the reference of a step is what the real library computes for the same
    /// operation *without pruning*, snapshotted exactly. Coefficients of corresponding nodes are
    /// produced by the same f64 operations in the same order, so they are bit-identical.
    fn float_reference(&self, op: &Op) -> Result<ModelTree, String> {
        use affinitree::distill::schema;
        use affinitree::pwl::impl_composition::{CompositionSchema, NoOpVis};
        struct AddU;
        struct SubU;
        struct MulU;
        macro_rules! schema_impl {
            ($name:ident, $op:tt) => {
                impl CompositionSchema for $name {
                    fn update_decision(original: &AffFunc, _: &AffFunc) -> AffFunc {
                        original.to_owned()
                    }
                    fn update_terminal(original: &AffFunc, context: &AffFunc) -> AffFunc {
                        context.clone() $op original
                    }
                    fn explore<const K: usize>(_: &AffTree<K>, _: usize, _: usize) -> bool {
                        true
                    }
                }
            };
        }
        schema_impl!(AddU, +);
        schema_impl!(SubU, -);
        schema_impl!(MulU, *);
        let r = guarded(|| -> Result<AffTree<2>, String> {
            Ok(match op {
                Op::ApplyFunc { slot, aff } => {
                    let mut t = self.pool[*slot].clone();
                    t.apply_func(&aff.to_aff());
                    t
                }
                Op::Compose { slot, other, .. } => {
                    let o = self.other_tree(other)?;
                    let mut t = self.pool[*slot].clone();
                    t.compose::<false, false>(&o);
                    t
                }
                Op::Eliminate { slot } | Op::Reduce { slot } => self.pool[*slot].clone(),
                Op::CloneTo { from, .. } => self.pool[*from].clone(),
                Op::Bin { kind, slot, other } => {
                    let o = self.other_tree(other)?;
                    let mut t = self.pool[*slot].clone();
                    let terms: Vec<usize> = t.tree.terminal_indices().collect();
                    match kind {
                        BinKind::Add => AffTree::<2>::generic_composition_inplace(&o, &mut t, terms, AddU, NoOpVis {}),
                        BinKind::Sub => AffTree::<2>::generic_composition_inplace(&o, &mut t, terms, SubU, NoOpVis {}),
                        BinKind::Mul => AffTree::<2>::generic_composition_inplace(&o, &mut t, terms, MulU, NoOpVis {}),
                    }
                    t
                }
                Op::Neg { slot } => -self.pool[*slot].clone(),
                Op::Scalar { kind, slot, aff, aff_left } => {
                    let t = self.pool[*slot].clone();
                    let f = aff.to_aff();
                    match (kind, aff_left) {
                        (BinKind::Add, false) => t + &f,
                        (BinKind::Sub, false) => t - &f,
                        (BinKind::Mul, false) => t * &f,
                        (BinKind::Add, true) => &f + t,
                        (BinKind::Sub, true) => &f - t,
                        (BinKind::Mul, true) => &f * t,
                    }
                }
                Op::Slice { slot, point } => {
                    let mut s = AffTree::<2>::from_slice(&slice_point(point));
                    s.compose::<false, false>(&self.pool[*slot]);
                    let mask = Array1::from_vec(point.iter().map(|p| p.is_none()).collect::<Vec<bool>>());
                    s.remove_axes(&mask).map_err(|e| e.to_string())?;
                    s
                }
                Op::RemoveAxes { slot, keep } => {
                    let mut t = self.pool[*slot].clone();
                    t.remove_axes(&Array1::from_vec(keep.clone())).map_err(|e| e.to_string())?;
                    t
                }
                Op::Pipeline { dim, layers, pre, .. } => {
                    let mut dd = match pre {
                        Some(c) => c.build(),
                        None => AffTree::<2>::new(*dim),
                    };
                    let mut cur = dd.terminals().map(|x| x.aff.outdim()).next().ok_or("no terminal")?;
                    for l in layers {
                        match l {
                            LayerLit::Linear { aff } => {
                                let f = aff.to_aff();
                                if f.indim() != cur {
                                    return Err("layer dimension".into());
                                }
                                dd.apply_func(&f);
                                cur = f.outdim();
                            }
                            LayerLit::Relu { row } if *row < cur => dd.compose::<false, false>(&schema::partial_ReLU(cur, *row)),
                            LayerLit::LeakyRelu { row, alpha } if *row < cur => dd.compose::<false, false>(&schema::partial_leaky_ReLU(cur, *row, *alpha)),
                            LayerLit::HardTanh { row } if *row < cur => dd.compose::<false, false>(&schema::partial_hard_tanh(cur, *row, -1., 1.)),
                            LayerLit::ClassChar { clazz } if *clazz < cur && cur >= 2 => {
                                dd.compose::<false, false>(&schema::class_characterization(cur, *clazz));
                                cur = 1;
                            }
                            LayerLit::Argmax if cur >= 2 => {
                                dd.compose::<false, false>(&schema::argmax(cur));
                                cur = 1;
                            }
                            _ => return Err("layer index out of range".into()),
                        }
                    }
                    dd
                }
            })
        });
        match r {
            Ok(Ok(t)) => ModelTree::snapshot(&t),
            Ok(Err(e)) => Err(e),
            Err(p) => Err(format!("reference operation panicked: {p}")),
        }
    }

    fn model_of_schema(&self, s: &SchemaLit) -> Result<ModelTree, String> {
        let t = guarded(|| s.build()).map_err(|p| format!("schema constructor panicked: {p}"))?;
        ModelTree::snapshot(&t)
    }

    fn c06_after_elimination(&mut self, slot: usize, site: &str, pre_a: bool, pre_b: bool, out: &mut StepReport) {
        let fault = self.mode == Mode::Fault && self.faults_armed();
        if fault || self.seam.borrow().tolerance_answers || (self.float && self.last_lps_error > 0) {
            return;
        }
        if !pre_a {
            self.stats.c06_skipped_precondition += 1;
            return;
        }
        let mut st = C06Stats::default();
        let res = oracle::check_effective(&self.pool[slot], pre_b, &mut st);
        self.stats.c06_checked += 1;
        self.stats.c06_nodes_examined += st.nodes_examined;
        self.stats.c06_thin_nodes_kept += st.thin_nodes_kept;
        if let Err((class, detail)) = res {
            let (class, detail) = if class == "empty_region_kept" { self.attribute_optimal(&class, detail) } else { (class, detail) };
            out.violations.push(self.viol(Clause::Effective, &class, site, detail));
            if self.stops(Clause::Effective) {
                out.stop = true;
            }
            return;
        }
        // (c) a second run changes nothing
        let mut again = self.pool[slot].clone();
        let sig_before = oracle::full_signature(&again);
        let r = guarded(|| again.infeasible_elimination());
        let _ = self.absorb_records();
        self.stats.c06_idempotence_checked += 1;
        match r {
            Err(p) => {
                out.violations.push(self.viol(Clause::Effective, "second_elimination_panicked", site, panic_site(&p)));
                if self.stops(Clause::Effective) {
                    out.stop = true;
                }
            }
            Ok(counter) => {
                let sig_after = oracle::full_signature(&again);
                if sig_before != sig_after {
                    let detail = format!(
                        "second elimination changed the tree: {} -> {} nodes, {} LPs solved, first difference at node {:?}",
                        sig_before.len(),
                        sig_after.len(),
                        counter.lps_solved,
                        sig_before.iter().zip(sig_after.iter()).find(|(a, b)| a != b).map(|(a, _)| a.0)
                    );
                    out.violations.push(self.viol(Clause::Effective, "not_idempotent", site, detail));
                    if self.stops(Clause::Effective) {
                        out.stop = true;
                    }
                }
            }
        }
    }

    /// C05, third clause: points returned by the witness-repair heuristic lie in the polytope asked for.
    fn mirror_probe(&mut self, site: &str, out: &mut StepReport) {
        if !self.probe_rng.chance(1, 3) {
            return;
        }
        let slot = self.probe_rng.below(self.pool.len());
        let tree = &self.pool[slot];
        let in_dim = tree.in_dim();
        if in_dim == 0 {
            return;
        }
        // pick a node with a non-empty path
        let idxs: Vec<usize> = tree.tree.node_iter().map(|(i, _)| i).filter(|i| *i != tree.tree.get_root_idx()).collect();
        if idxs.is_empty() {
            return;
        }
        let idx = *self.probe_rng.pick(&idxs);
        let Ok(path) = guarded(|| tree.tree.path_to_node(idx)) else { return };
        let Ok(path) = path else { return };
        let mut mat: Vec<Vec<f64>> = Vec::new();
        let mut bias: Vec<f64> = Vec::new();
        for (n, label) in &path {
            let Ok(node) = tree.tree.tree_node(*n) else { return };
            if node.value.aff.bias.len() != 1 {
                return;
            }
            let f = if *label == 1 { 1.0 } else { -1.0 };
            mat.push(node.value.aff.mat.row(0).iter().map(|v| v * f).collect());
            bias.push(node.value.aff.bias[0] * f);
        }
        if mat.is_empty() {
            return;
        }
        // half of the probes: rows scaled up (same point set, large norms) and start points a hair
        // outside a facet - where an absolute tolerance and a normalised margin disagree
        let scaled = self.probe_rng.chance(1, 2);
        if scaled {
            let sc = *self.probe_rng.pick(&[1e2, 1e3, 1e4, 1e6]);
            for (r, b) in mat.iter_mut().zip(bias.iter_mut()) {
                for v in r.iter_mut() {
                    *v *= sc;
                }
                *b *= sc;
            }
        }
        let mut m = Array2::<f64>::zeros((mat.len(), in_dim));
        for (i, r) in mat.iter().enumerate() {
            for (j, v) in r.iter().enumerate() {
                m[[i, j]] = *v;
            }
        }
        if m.iter().chain(bias.iter()).any(|v| !v.is_finite()) {
            return;
        }
        let poly = Polytope::from_mats(m, Array1::from_vec(bias.clone()));
        // start points: perturbed witness / far / small random / just outside a facet
        let n_pts = 1 + self.probe_rng.below(3);
        let mut pts = Array2::<f64>::zeros((in_dim, n_pts));
        let wit: Option<Vec<f64>> = match &tree.tree.node_value(idx).unwrap().state {
            NodeState::FeasibleWitness(ws) if !ws.is_empty() && ws[0].len() == in_dim => Some(ws[0].to_vec()),
            _ => None,
        };
        let exact_rows = lpseam::rows_of(&mat, &bias);
        let wd = width(in_dim, &exact_rows);
        for c in 0..n_pts {
            let style = if scaled && wd.nonempty() { 4 } else { self.probe_rng.below(4) };
            if style == 4 {
                // boundary point on the facet hit from the centre, pushed outward by eps (normalised)
                let live: Vec<&Row> = exact_rows.iter().filter(|r| !r.is_zero_row()).collect();
                if live.is_empty() {
                    return;
                }
                let target = live[self.probe_rng.below(live.len())];
                let lam = crate::exact::ray_shoot(&exact_rows, &wd.center, &target.a).unwrap_or(Q::zero());
                let hit: Vec<Q> = wd.center.iter().zip(&target.a).map(|(x, d)| x.add(&lam.mul(d))).collect();
                let stop = live.iter().min_by(|a, b| a.slack(&hit).cmp(&b.slack(&hit))).unwrap();
                let norm: f64 = stop.a.iter().map(|q| q.to_f64() * q.to_f64()).sum::<f64>().sqrt();
                let eps = *self.probe_rng.pick(&[2e-11, 5e-11, 9e-11, 2e-10, 1e-9, 1e-6]);
                for j in 0..in_dim {
                    pts[[j, c]] = hit[j].to_f64() + eps * stop.a[j].to_f64() / norm;
                }
                continue;
            }
            for j in 0..in_dim {
                let base = wit.as_ref().map(|w| w[j]).unwrap_or(0.0);
                pts[[j, c]] = match style {
                    0 => base + self.probe_rng.range(-8, 8) as f64 / 8.0,
                    1 => base + self.probe_rng.range(-4, 4) as f64,
                    2 => self.probe_rng.range(-3, 3) as f64 * 1e3,
                    _ => self.probe_rng.range(-6, 6) as f64 / 2.0,
                };
            }
        }
        if pts.iter().any(|v| !v.is_finite()) {
            return;
        }
        // one probe in six starts far out (1e6..1e7) along the facet, a few ulps off it: there the
        // heuristic's normalized 1e-10 margin lies below the rounding error of its own test
        if scaled && wd.nonempty() && in_dim >= 2 && self.probe_rng.chance(1, 6) {
            let live: Vec<&Row> = exact_rows.iter().filter(|r| !r.is_zero_row()).collect();
            if !live.is_empty() {
                let r = live[self.probe_rng.below(live.len())];
                let a: Vec<f64> = r.a.iter().map(|q| q.to_f64()).collect();
                // a direction orthogonal to the row: swap two coordinates with a sign
                let i = self.probe_rng.below(in_dim);
                let j = (i + 1 + self.probe_rng.below(in_dim - 1)) % in_dim;
                let mut v = vec![0.0; in_dim];
                v[i] = a[j];
                v[j] = -a[i];
                let vn: f64 = v.iter().map(|x| x * x).sum::<f64>().sqrt();
                let an: f64 = a.iter().map(|x| x * x).sum::<f64>().sqrt();
                if vn > 0.0 && an > 0.0 {
                    let t = *self.probe_rng.pick(&[1e6, 3e6, 1e7]) / vn;
                    let lam = crate::exact::ray_shoot(&exact_rows, &wd.center, &r.a).unwrap_or(Q::zero());
                    let c = self.probe_rng.below(n_pts);
                    let off = *self.probe_rng.pick(&[0.0, 1e-9, -1e-9, 1e-7]);
                    for k in 0..in_dim {
                        pts[[k, c]] = wd.center[k].to_f64() + lam.to_f64() * a[k] + t * v[k] + off * a[k] / an;
                    }
                }
            }
        }
        // one probe in eight starts from a point with a non-finite coordinate (what a misbehaving
        // backend hands to the repair): whatever comes back must still be a point of the polytope
        if self.probe_rng.chance(1, 8) {
            let c = self.probe_rng.below(n_pts);
            let j = self.probe_rng.below(in_dim);
            pts[[j, c]] = *self.probe_rng.pick(&[f64::NAN, f64::INFINITY, f64::NEG_INFINITY]);
        }
        let iters = *self.probe_rng.pick(&[1usize, 2, 8, 20]);
        let res = guarded(|| AffTree::<2>::mirror_points(&poly, &pts, iters));
        self.stats.mirror_probes += 1;
        if let Ok(Some((found, _it))) = res {
            for col in found.columns() {
                self.stats.mirror_probe_points_returned += 1;
                let p = col.to_vec();
                // the library's own containment test is the documented standard ...
                if !poly.contains(&col) {
                    out.violations.push(self.viol(
                        Clause::Cache,
                        "mirror_point_rejected_by_contains",
                        site,
                        format!("mirror_points returned {:?} for the path polytope of node {idx} (slot {slot}), but Polytope::contains rejects it for the same polytope", p),
                    ));
                    if self.stops(Clause::Cache) {
                        out.stop = true;
                    }
                    return;
                }
                // ... and exact arithmetic with the rounding allowance of that test the referee
                if !oracle::points_inside(&mat, &bias, &p) {
                    out.violations.push(self.viol(
                        Clause::Cache,
                        "mirror_point_outside_polytope",
                        site,
                        format!("mirror_points returned {:?} for the path polytope of node {idx} (slot {slot}), which does not contain it", p),
                    ));
                    if self.stops(Clause::Cache) {
                        out.stop = true;
                    }
                    return;
                }
            }
        }
    }
}

/// (precondition for (a): every missing branch has an exactly empty reported region,
///  precondition for (b): every decision below the root has both branches)
fn c06_preconditions(tree: &AffTree<2>) -> (bool, bool) {
    let paths = oracle::node_paths(tree);
    let root = tree.tree.get_root_idx();
    let in_dim = tree.in_dim();
    let mut pre_a = true;
    let mut pre_b = true;
    for (idx, node) in tree.tree.node_iter() {
        if node.isleaf {
            continue;
        }
        for (label, c) in node.children.iter().enumerate() {
            if c.is_none() {
                if idx != root {
                    pre_b = false;
                }
                if node.value.aff.bias.len() != 1 {
                    return (false, false);
                }
                let a: Vec<Q> = node.value.aff.mat.row(0).iter().map(|v| Q::from_f64(*v)).collect();
                let b = Q::from_f64(node.value.aff.bias[0]);
                let pred = Row { a, b };
                let mut rows = paths[&idx].clone();
                rows.push(if label == 1 { pred } else { pred.negated() });
                if width(in_dim, &rows).nonempty() {
                    pre_a = false;
                }
            }
        }
    }
    (pre_a, pre_b)
}

// ---------------------------------------------------------------------------
// Running scenarios
// ---------------------------------------------------------------------------

pub struct RunResult {
    pub scenario: Scenario,
    pub violations: Vec<Violation>,
    pub stats: PwlStats,
    pub invalid: bool,
    pub steps_done: usize,
}

/// Executes a literal scenario from scratch.
pub fn run_scenario(sc: &Scenario, focus: Option<&str>) -> RunResult {
    let mut violations = Vec::new();
    let mut ex = match Exec::new(sc, true) {
        Ok(mut e) => {
            e.focus = focus.map(|f| f.to_string());
            e
        }
        Err(_) => {
            lpseam::uninstall();
            return RunResult { scenario: sc.clone(), violations, stats: PwlStats::default(), invalid: true, steps_done: 0 };
        }
    };
    for f in sc.fault_plan.faults.values() {
        bump(&mut ex.stats.faults_configured, f.family(), 1);
    }
    violations.extend(ex.initial_violations.clone());
    if !violations.is_empty() {
        lpseam::uninstall();
        ex.stats.runs = 1;
        return RunResult { scenario: sc.clone(), violations, stats: ex.stats, invalid: false, steps_done: 0 };
    }
    let mut invalid = false;
    let mut steps_done = 0;
    for (i, op) in sc.history.iter().enumerate() {
        if sc.mode == Mode::Fault && i == sc.fault_from_step {
            arm_faults(&mut ex, sc);
        }
        let rep = ex.step(op);
        steps_done = i + 1;
        if rep.invalid {
            invalid = true;
            break;
        }
        violations.extend(rep.violations);
        if rep.stop {
            break;
        }
    }
    lpseam::uninstall();
    ex.stats.runs = 1;
    RunResult { scenario: sc.clone(), violations, stats: ex.stats, invalid, steps_done }
}

fn crumb(sc: &Scenario, step: usize) {
    step_crumb(|| {
        let rep = PwlReplay {
            property: property_of(sc.mode, sc.mode == Mode::Fault, Clause::Structure).to_string(),
            simulator: "pwlsim".into(),
            seed: 0,
            run_index: 0,
            scenario: sc.clone(),
            expected: Some(Violation {
                property: property_of(sc.mode, sc.mode == Mode::Fault, Clause::Structure).to_string(),
                class: "process_died".into(),
                site: sc.history.get(step).map(|o| o.name()).unwrap_or_default(),
                step,
                detail: "the process aborted, overflowed its stack or hung while executing this step".into(),
            }),
        };
        serde_json::to_string_pretty(&rep).unwrap()
    });
}

fn arm_faults(ex: &mut Exec, sc: &Scenario) {
    ex.seam.borrow_mut().faults_armed = true;
    affinitree::verif_hooks::reset_lp_calls();
    // same streams as the scenario search used for the faulty suffix
    let mut seed_rng = Prng::new(sc.seam_seed);
    let _ = seed_rng.fork(1);
    ex.probe_rng = seed_rng.fork(2);
    ex.selfcheck_pm = 0;
}

/// One seeded run for C03..C06: knobs, pool, mode and every operation derive from `run_seed`.
pub fn seeded_history_run(focus: &str, run_seed: u64, deep: bool) -> RunResult {
    seeded_history_run_traced(focus, run_seed, deep, false)
}

pub fn seeded_history_run_traced(focus: &str, run_seed: u64, deep: bool, print: bool) -> RunResult {
    events_reset(print);
    event(&format!("run_seed {run_seed} focus {focus} deep {deep}"));
    let mut rng = Prng::new(run_seed);
    let knobs = gen::gen_knobs_depth(&mut rng, focus, deep);
    let mode = gen::gen_mode(&mut rng);
    let mut pool = Vec::new();
    for _ in 0..knobs.pool_size {
        let (c, _) = gen::gen_ctor(&mut rng, &knobs, knobs.in_dim);
        pool.push(c);
    }
    let mut sc = Scenario {
        pool,
        history: Vec::new(),
        mode,
        seam_seed: rng.next_u64(),
        fault_from_step: 0,
        fault_plan: FaultPlan::default(),
        // not for C06: an unrepaired in-tolerance point leaves a node Indeterminate, which is
        // "less pruning" and would make the effectiveness clauses a false-alarm source
        legal_tolerance_answers: mode == Mode::Legal && focus != "C06" && rng.chance(1, 2),
        legal_when_unfaulted: false,
        float_regime: knobs.float_regime,
    };
    let mut violations = Vec::new();
    let mut ex = match Exec::new(&sc, true) {
        Ok(mut e) => {
            e.focus = Some(focus.to_string());
            e
        }
        Err(e) => {
            lpseam::uninstall();
            let mut stats = PwlStats::default();
            bump(&mut stats.discarded_runs, &format!("pool construction failed: {e}"), 1);
            stats.runs = 1;
            return RunResult { scenario: sc, violations, stats, invalid: true, steps_done: 0 };
        }
    };
    let mut steps_done = 0;
    violations.extend(ex.initial_violations.clone());
    let hist_len = if violations.is_empty() { knobs.hist_len } else { 0 };
    for _ in 0..hist_len {
        let infos = ex.slot_infos();
        if infos.iter().any(|i| i.out_dim == 0) {
            break;
        }
        let Some(op) = gen::gen_op(&mut rng, &knobs, &infos, false) else { break };
        sc.history.push(op.clone());
        crumb(&sc, sc.history.len() - 1);
        let rep = ex.step(&op);
        steps_done += 1;
        if rep.invalid {
            bump(&mut ex.stats.discarded_runs, "generator produced an incompatible operation", 1);
            break;
        }
        violations.extend(rep.violations);
        if rep.stop {
            break;
        }
    }
    lpseam::uninstall();
    finalize_nontrivial(&mut ex, &sc);
    ex.stats.runs = 1;
    let (d, n) = events_digest();
    ex.stats.event_digest_sum = d;
    ex.stats.events_logged = n;
    RunResult { scenario: sc, violations, stats: ex.stats, invalid: false, steps_done }
}

fn finalize_nontrivial(ex: &mut Exec, sc: &Scenario) {
    // distinct & non-trivial: at least one pruning step removed nodes; distinct by (ops, mode, state hashes)
    if ex.removed_any {
        let mut h = crate::common::Fnv::new();
        h.str(&format!("{:?}", sc.mode));
        for c in &sc.pool {
            h.str(c.short());
        }
        for op in &sc.history {
            h.str(&op.name());
        }
        for s in &ex.stats.state_hashes {
            h.u64(*s);
        }
        for (k, _) in &sc.fault_plan.faults {
            h.u64(*k as u64);
        }
        ex.stats.nontrivial_hashes.insert(h.finish());
    }
}

// ---------------------------------------------------------------------------
// C11: fault scenarios
// ---------------------------------------------------------------------------

pub struct FaultScenarioResult {
    pub base: Scenario,
    /// (scenario with a concrete plan, violations)
    pub violating: Vec<(Scenario, Vec<Violation>)>,
    pub stats: PwlStats,
    pub executions: u64,
    pub baseline_calls: usize,
    pub enumerated_single: u64,
    pub enumerated_pairs: u64,
    pub sampled_plans: u64,
    pub discarded: bool,
}

/// Executes `suffix` (steps fault_from_step..) of `sc` on a copy of the post-prefix state.
fn run_suffix(prefix_pool: &[AffTree<2>], prefix_models: &[ModelTree], sc: &Scenario, agg: &mut PwlStats) -> (Vec<Violation>, usize, Vec<AffTree<2>>) {
    let mut seed_rng = Prng::new(sc.seam_seed);
    let seam_rng = seed_rng.fork(1);
    let probe_rng = seed_rng.fork(2);
    let seam = lpseam::install(Mode::Fault, sc.fault_plan.clone(), seam_rng);
    seam.borrow_mut().legal_when_unfaulted = sc.legal_when_unfaulted;
    let mut ex = Exec {
        pool: prefix_pool.to_vec(),
        models: prefix_models.to_vec(),
        mode: Mode::Fault,
        seam,
        probe_rng,
        step_no: sc.fault_from_step,
        stats: PwlStats::default(),
        check: true,
        records_all: Vec::new(),
        last_records: Vec::new(),
        removed_any: false,
        selfcheck_pm: 0,
        focus: None,
        float: sc.float_regime,
        initial_violations: Vec::new(),
        last_lps_error: 0,
    };
    for f in sc.fault_plan.faults.values() {
        bump(&mut ex.stats.faults_configured, f.family(), 1);
    }
    let mut violations = Vec::new();
    crumb(sc, sc.fault_from_step);
    for op in &sc.history[sc.fault_from_step..] {
        let rep = ex.step(op);
        violations.extend(rep.violations);
        if rep.stop {
            break;
        }
    }
    let calls = lpseam::next_index();
    lpseam::uninstall();
    finalize_nontrivial(&mut ex, sc);
    let pool = std::mem::take(&mut ex.pool);
    agg.merge(ex.stats);
    (violations, calls, pool)
}

/// One C11 scenario: seeded pool + fault-free prefix, a pruning suffix, then every single-fault
/// plan (position x kind), optionally every pair of positions, plus seeded multi-fault plans.
/// Number of work items a scenario is split into: item c executes the plans with index = c mod CHUNKS
/// (every item rebuilds the scenario and its fault-free baseline; plans are generated identically).
pub const CHUNKS: usize = 8;

pub fn seeded_fault_scenario(run_seed: u64, thorough: bool, chunk: usize) -> FaultScenarioResult {
    seeded_fault_scenario_traced(run_seed, thorough, chunk, false)
}

pub fn seeded_fault_scenario_traced(run_seed: u64, thorough: bool, chunk: usize, print: bool) -> FaultScenarioResult {
    events_reset(print);
    event(&format!("run_seed {run_seed} fault scenario thorough={thorough} chunk={chunk}"));
    let mut rng = Prng::new(run_seed);
    let mut knobs = gen::gen_knobs(&mut rng, "C11");
    knobs.node_cap = knobs.node_cap.min(150);
    let mut pool = Vec::new();
    for _ in 0..knobs.pool_size {
        let (c, _) = gen::gen_ctor(&mut rng, &knobs, knobs.in_dim);
        pool.push(c);
    }
    let prefix_len = rng.below(4);
    let suffix_len = 1 + rng.below(4);
    let mut sc = Scenario {
        pool,
        history: Vec::new(),
        mode: Mode::Fault,
        seam_seed: rng.next_u64(),
        fault_from_step: 0,
        fault_plan: FaultPlan::default(),
        legal_tolerance_answers: false,
        legal_when_unfaulted: rng.chance(1, 3),
        float_regime: knobs.float_regime,
    };
    let mut stats = PwlStats::default();
    let mut result = FaultScenarioResult {
        base: sc.clone(),
        violating: Vec::new(),
        stats: PwlStats::default(),
        executions: 0,
        baseline_calls: 0,
        enumerated_single: 0,
        enumerated_pairs: 0,
        sampled_plans: 0,
        discarded: false,
    };
    // prefix: fault-free, real backend, unchecked except for validity
    let mut ex = match Exec::new(&Scenario { mode: Mode::Real, ..sc.clone() }, false) {
        Ok(e) => e,
        Err(_) => {
            lpseam::uninstall();
            result.discarded = true;
            return result;
        }
    };
    ex.check = false;
    ex.selfcheck_pm = 0;
    for _ in 0..prefix_len {
        let infos = ex.slot_infos();
        if infos.iter().any(|i| i.out_dim == 0) {
            break;
        }
        let Some(op) = gen::gen_op(&mut rng, &knobs, &infos, false) else { break };
        let rep = ex.step(&op);
        if rep.invalid || rep.stop || !rep.violations.is_empty() {
            // a problem in the fault-free prefix is not C11's business
            lpseam::uninstall();
            result.discarded = true;
            return result;
        }
        sc.history.push(op);
    }
    sc.fault_from_step = sc.history.len();
    let prefix_pool = ex.pool.clone();
    let prefix_models = ex.models.clone();
    // suffix: generated while executing fault-free on the prefix executor (keeps dimensions current)
    for _ in 0..suffix_len {
        let infos = ex.slot_infos();
        if infos.iter().any(|i| i.out_dim == 0) {
            break;
        }
        let mut k2 = knobs.clone();
        k2.pipeline_pm = k2.pipeline_pm.max(150);
        // the first faulty step always prunes; later ones may be ordinary operations working on the
        // leftovers of the faulty ones (reduce, clone, apply_func, unpruned composition, ...)
        let only_pruning = sc.history.len() == sc.fault_from_step || rng.chance(2, 3);
        // an elimination is often followed by reduce on the same tree (moves caches around)
        let forced = match sc.history.last() {
            Some(Op::Eliminate { slot }) | Some(Op::Pipeline { slot, .. }) if sc.history.len() > sc.fault_from_step && rng.chance(1, 3) => {
                Some(Op::Reduce { slot: *slot })
            }
            _ => None,
        };
        let Some(op) = forced.or_else(|| gen::gen_op(&mut rng, &k2, &infos, only_pruning)) else { break };
        let rep = ex.step(&op);
        if rep.invalid || rep.stop || !rep.violations.is_empty() {
            lpseam::uninstall();
            result.discarded = true;
            return result;
        }
        sc.history.push(op);
    }
    lpseam::uninstall();
    if sc.history.len() == sc.fault_from_step {
        result.discarded = true;
        return result;
    }

    // baseline: suffix without faults (plan empty), oracles on
    let (v0, n_calls, base_pool) = run_suffix(&prefix_pool, &prefix_models, &sc, &mut stats);
    if chunk == 0 {
        result.executions += 1;
    }
    result.baseline_calls = n_calls;
    if !v0.is_empty() {
        // fault-free violation: belongs to C03..C06; C11 does not judge it
        result.discarded = true;
        bump(&mut stats.discarded_runs, "violation without any fault (judged by C03-C06)", 1);
        result.stats = stats;
        return result;
    }
    let base_nodes: Vec<usize> = base_pool.iter().map(|t| t.len()).collect();
    let menu = lpseam::FaultKind::menu();
    // deterministic cost bound per scenario (LP calls, not wall-clock): enumeration stops when it is used up
    let lp_budget: u64 = (if thorough { 600_000 } else { 60_000 }) / CHUNKS as u64;
    let try_plan = |plan: FaultPlan, stats: &mut PwlStats, result: &mut FaultScenarioResult| {
        if stats.lp_calls > lp_budget {
            if result.executions > 0 && stats.probes.get("scenario stopped early: LP-call budget used up").is_none() {
                bump(&mut stats.probes, "scenario stopped early: LP-call budget used up", 1);
            }
            return;
        }
        let mut s = sc.clone();
        s.fault_plan = plan;
        crate::common::heartbeat();
        event(&format!("plan {:?}", s.fault_plan.faults.iter().map(|(k, f)| format!("{k}:{}", f.label())).collect::<Vec<_>>()));
        let (v, _calls, pool) = run_suffix(&prefix_pool, &prefix_models, &s, stats);
        result.executions += 1;
        if !v.is_empty() {
            result.violating.push((s, v));
        } else {
            // bounded-recovery probe (evidence, not a verdict - C11 does not promise it): once faults
            // stop, does ONE fault-free elimination leave no empty region below the root?
            if result.executions % 8 == 0 {
                let seam = lpseam::install(Mode::Real, FaultPlan::default(), Prng::new(0));
                for t in pool.iter() {
                    let mut c = t.clone();
                    let (pre_a, _) = c06_preconditions(&c);
                    if !pre_a {
                        continue;
                    }
                    if guarded(|| c.infeasible_elimination()).is_ok() {
                        let mut st = C06Stats::default();
                        stats.recovery_checked += 1;
                        if oracle::check_effective(&c, false, &mut st).is_ok() {
                            stats.recovery_full += 1;
                        }
                    }
                }
                let _ = lpseam::take_records(&seam);
                lpseam::uninstall();
            }
            // probe: recovery once faults stop - one fault-free elimination per tree
            let more: usize = pool.iter().zip(&base_nodes).map(|(t, b)| t.len().saturating_sub(*b)).sum();
            if more > 0 {
                bump(&mut stats.probes, "faulted run kept more nodes than the fault-free run", 1);
            }
        }
    };
    // The plan list is generated completely (and identically in every chunk); this chunk executes its share.
    // enumeration: every position x every kind (at most 48 / 160 positions per scenario in the quick /
    // thorough tier - the first 16, the last 16 and seeded ones in between; counted as a partial enumeration)
    let mut plans: Vec<(FaultPlan, u8)> = Vec::new();
    let cap = if thorough { 160 } else { 48 };
    let positions: Vec<usize> = if n_calls <= cap {
        (0..n_calls).collect()
    } else {
        let mut set: BTreeSet<usize> = (0..16).chain(n_calls - 16..n_calls).collect();
        while set.len() < cap {
            set.insert(16 + rng.below(n_calls - 32));
        }
        if chunk == 0 {
            bump(&mut stats.probes, "scenario with more LP calls than the tier's cap (48 quick / 160 thorough): single-fault enumeration restricted to a seeded subset of positions", 1);
        }
        set.into_iter().collect()
    };
    for pos in positions {
        for kind in &menu {
            let mut plan = FaultPlan::default();
            plan.faults.insert(pos, kind.clone());
            plans.push((plan, 0));
        }
    }
    // pairs of positions: thorough for n <= 12 with kinds from the whole menu; quick for n <= 8 with the
    // kinds that leave a node without verdict or witness (Error, Unbounded, unrepairable far-off point) -
    // the combination "parent has no witness AND one child's call fails" needs two faults
    let destructive = [lpseam::FaultKind::Error, lpseam::FaultKind::Unbounded, lpseam::FaultKind::FarOff { variant: 1, pick: 7 }];
    if n_calls >= 2 && ((thorough && n_calls <= 12) || n_calls <= 8) {
        for p in 0..n_calls {
            for q in (p + 1)..(n_calls + 2) {
                let mut plan = FaultPlan::default();
                if thorough {
                    plan.faults.insert(p, rng.pick(&menu).clone());
                    plan.faults.insert(q, rng.pick(&menu).clone());
                } else {
                    plan.faults.insert(p, rng.pick(&destructive).clone());
                    plan.faults.insert(q, rng.pick(&destructive).clone());
                }
                plans.push((plan, 1));
            }
        }
    }
    // seeded multi-fault plans
    let n_sampled = if thorough { 12 } else { 4 };
    for _ in 0..n_sampled {
        plans.push((gen::gen_fault_plan(&mut rng, n_calls), 2));
    }
    for (i, (plan, kind)) in plans.into_iter().enumerate() {
        if i % CHUNKS != chunk {
            continue;
        }
        try_plan(plan, &mut stats, &mut result);
        match kind {
            0 => result.enumerated_single += 1,
            1 => result.enumerated_pairs += 1,
            _ => result.sampled_plans += 1,
        }
    }
    stats.runs = 1;
    let (d, n) = events_digest();
    stats.event_digest_sum = d;
    stats.events_logged = n;
    result.base = sc;
    result.stats = stats;
    result
}

// ---------------------------------------------------------------------------
// Minimisation
// ---------------------------------------------------------------------------

fn same_violation(vs: &[Violation], target: &Violation) -> Option<Violation> {
    vs.iter().find(|v| v.property == target.property && v.class == target.class && v.site == target.site).cloned()
}

fn shrink_aff(a: &AffLit) -> Vec<AffLit> {
    let mut out = Vec::new();
    // zero single entries, halve magnitudes
    for i in 0..a.mat.len() {
        for j in 0..a.indim {
            if a.mat[i][j] != 0.0 {
                let mut c = a.clone();
                c.mat[i][j] = 0.0;
                out.push(c);
            }
        }
        if a.bias[i] != 0.0 {
            let mut c = a.clone();
            c.bias[i] = 0.0;
            out.push(c);
        }
    }
    out
}

fn ctor_candidates(c: &Ctor) -> Vec<Ctor> {
    let mut out = Vec::new();
    match c {
        Ctor::FromAff { aff } => {
            for a in shrink_aff(aff) {
                out.push(Ctor::FromAff { aff: a });
            }
        }
        Ctor::FromPoly { poly, f_true, f_false } => {
            if poly.mat.len() > 1 {
                for i in 0..poly.mat.len() {
                    let mut p = poly.clone();
                    p.mat.remove(i);
                    p.bias.remove(i);
                    out.push(Ctor::FromPoly { poly: p, f_true: f_true.clone(), f_false: f_false.clone() });
                }
            }
            for a in shrink_aff(f_true) {
                out.push(Ctor::FromPoly { poly: poly.clone(), f_true: a, f_false: f_false.clone() });
            }
            for p in shrink_aff(poly) {
                if p.mat.iter().all(|r| r.iter().any(|v| *v != 0.0)) || true {
                    out.push(Ctor::FromPoly { poly: p, f_true: f_true.clone(), f_false: f_false.clone() });
                }
            }
        }
        Ctor::Literal { tree } => {
            // replace a decision subtree by dropping its descendants (turns it into a leaf: needs a leaf function)
            // cheap variant: drop leaves that are the only child / drop last node if it is a leaf
            for i in (1..tree.nodes.len()).rev() {
                let is_parent = tree.nodes.iter().any(|n| n.parent == Some(i));
                if !is_parent {
                    let mut t = tree.clone();
                    t.nodes.remove(i);
                    for n in t.nodes.iter_mut() {
                        if let Some(p) = n.parent {
                            if p > i {
                                n.parent = Some(p - 1);
                            }
                        }
                    }
                    // a decision that lost all children would become a leaf with a predicate: skip those
                    let ok = (0..t.nodes.len()).all(|k| {
                        let has_child = t.nodes.iter().any(|n| n.parent == Some(k));
                        let was_decision = {
                            let orig_k = if k >= i { k + 1 } else { k };
                            tree.nodes.iter().any(|n| n.parent == Some(orig_k))
                        };
                        has_child || !was_decision
                    });
                    if ok {
                        out.push(Ctor::Literal { tree: t });
                    }
                }
            }
            for (i, n) in tree.nodes.iter().enumerate() {
                for a in shrink_aff(&n.aff) {
                    let mut t = tree.clone();
                    t.nodes[i].aff = a;
                    out.push(Ctor::Literal { tree: t });
                }
            }
        }
        _ => {}
    }
    out
}

/// Delta debugging over fault plan, history steps and pool literals, bounded.
pub fn minimize(sc: &Scenario, target: &Violation, budget: usize) -> (Scenario, Violation) {
    let mut cur = sc.clone();
    let mut cur_v = target.clone();
    let mut budget = budget;
    let mut try_cand = |cand: &Scenario, budget: &mut usize| -> Option<Violation> {
        if *budget == 0 {
            return None;
        }
        *budget -= 1;
        let r = run_scenario(cand, Some(&target.property));
        if r.invalid {
            return None;
        }
        same_violation(&r.violations, target)
    };
    // truncate after the violating step
    if cur.history.len() > target.step + 1 {
        let mut c = cur.clone();
        c.history.truncate(target.step + 1);
        if let Some(v) = try_cand(&c, &mut budget) {
            cur = c;
            cur_v = v;
        }
    }
    let mut changed = true;
    while changed && budget > 0 {
        changed = false;
        // 1. faults: drop, then simplify
        let keys: Vec<usize> = cur.fault_plan.faults.keys().copied().collect();
        for k in keys {
            let mut c = cur.clone();
            c.fault_plan.faults.remove(&k);
            if let Some(v) = try_cand(&c, &mut budget) {
                cur = c;
                cur_v = v;
                changed = true;
            }
        }
        let keys: Vec<usize> = cur.fault_plan.faults.keys().copied().collect();
        for k in keys {
            for simple in [lpseam::FaultKind::Error, lpseam::FaultKind::Unbounded] {
                if cur.fault_plan.faults[&k] == simple {
                    break;
                }
                let mut c = cur.clone();
                c.fault_plan.faults.insert(k, simple.clone());
                if let Some(v) = try_cand(&c, &mut budget) {
                    cur = c;
                    cur_v = v;
                    changed = true;
                    break;
                }
            }
        }
        // 2. history steps: drop (never the last one)
        let mut i = cur.history.len().saturating_sub(1);
        while i > 0 {
            i -= 1;
            let mut c = cur.clone();
            c.history.remove(i);
            if c.fault_from_step > i {
                c.fault_from_step -= 1;
            }
            if let Some(v) = try_cand(&c, &mut budget) {
                c.history.truncate(v.step + 1);
                cur = c;
                cur_v = v;
                changed = true;
                i = i.min(cur.history.len().saturating_sub(1));
            }
        }
        // 3. legal mode -> real mode
        if cur.mode == Mode::Legal {
            let mut c = cur.clone();
            c.mode = Mode::Real;
            if let Some(v) = try_cand(&c, &mut budget) {
                cur = c;
                cur_v = v;
                changed = true;
            }
        }
        // 4. unused pool slots -> trivial trees; used ones -> shrunk literals
        for s in 0..cur.pool.len() {
            let dim = match Exec::new(&Scenario { history: vec![], ..cur.clone() }, false) {
                Ok(e) => {
                    lpseam::uninstall();
                    e.models[s].in_dim
                }
                Err(_) => {
                    lpseam::uninstall();
                    continue;
                }
            };
            if !matches!(cur.pool[s], Ctor::New { .. }) {
                let mut c = cur.clone();
                c.pool[s] = Ctor::New { dim };
                if let Some(v) = try_cand(&c, &mut budget) {
                    cur = c;
                    cur_v = v;
                    changed = true;
                    continue;
                }
            }
            let mut progress = true;
            while progress && budget > 0 {
                progress = false;
                for cand_ctor in ctor_candidates(&cur.pool[s]) {
                    let mut c = cur.clone();
                    c.pool[s] = cand_ctor;
                    if let Some(v) = try_cand(&c, &mut budget) {
                        cur = c;
                        cur_v = v;
                        changed = true;
                        progress = true;
                        break;
                    }
                }
            }
        }
        // 5. literals inside operations
        for i in 0..cur.history.len() {
            let cands: Vec<Op> = match &cur.history[i] {
                Op::ApplyFunc { slot, aff } => shrink_aff(aff).into_iter().map(|a| Op::ApplyFunc { slot: *slot, aff: a }).collect(),
                Op::Pipeline { slot, dim, layers, pre } => {
                    let mut v = Vec::new();
                    if pre.is_some() {
                        v.push(Op::Pipeline { slot: *slot, dim: *dim, layers: layers.clone(), pre: None });
                    }
                    for k in 0..layers.len() {
                        let mut l = layers.clone();
                        l.remove(k);
                        v.push(Op::Pipeline { slot: *slot, dim: *dim, layers: l, pre: pre.clone() });
                    }
                    for k in 0..layers.len() {
                        if let LayerLit::Linear { aff } = &layers[k] {
                            for a in shrink_aff(aff) {
                                let mut l = layers.clone();
                                l[k] = LayerLit::Linear { aff: a };
                                v.push(Op::Pipeline { slot: *slot, dim: *dim, layers: l, pre: pre.clone() });
                            }
                        }
                    }
                    v
                }
                _ => Vec::new(),
            };
            for cand_op in cands {
                let mut c = cur.clone();
                c.history[i] = cand_op;
                if let Some(v) = try_cand(&c, &mut budget) {
                    cur = c;
                    cur_v = v;
                    changed = true;
                    break;
                }
            }
        }
    }
    (cur, cur_v)
}
