//! The only source of randomness in the simulator: SplitMix64 seeding a xoshiro256**.
//! Written out so that no dependency upgrade can change a replay.

#[derive(Clone, Debug)]
pub struct Prng {
    s: [u64; 4],
}

pub fn splitmix(x: &mut u64) -> u64 {
    *x = x.wrapping_add(0x9E37_79B9_7F4A_7C15);
    let mut z = *x;
    z = (z ^ (z >> 30)).wrapping_mul(0xBF58_476D_1CE4_E5B9);
    z = (z ^ (z >> 27)).wrapping_mul(0x94D0_49BB_1331_11EB);
    z ^ (z >> 31)
}

/// Mixes several integers into one seed (order-sensitive).
pub fn mix(parts: &[u64]) -> u64 {
    let mut acc = 0x243F_6A88_85A3_08D3u64;
    for p in parts {
        let mut x = acc ^ p.wrapping_mul(0xD6E8_FEB8_6659_FD93);
        acc = splitmix(&mut x).rotate_left(17) ^ *p;
        let mut y = acc;
        acc = splitmix(&mut y);
    }
    acc
}

impl Prng {
    pub fn new(seed: u64) -> Prng {
        let mut x = seed;
        let s = [
            splitmix(&mut x),
            splitmix(&mut x),
            splitmix(&mut x),
            splitmix(&mut x),
        ];
        Prng { s }
    }

    /// An independent stream derived from this one's seed material and a tag.
    pub fn fork(&mut self, tag: u64) -> Prng {
        let a = self.next_u64();
        Prng::new(mix(&[a, tag]))
    }

    pub fn next_u64(&mut self) -> u64 {
        let result = self.s[1].wrapping_mul(5).rotate_left(7).wrapping_mul(9);
        let t = self.s[1] << 17;
        self.s[2] ^= self.s[0];
        self.s[3] ^= self.s[1];
        self.s[1] ^= self.s[2];
        self.s[0] ^= self.s[3];
        self.s[2] ^= t;
        self.s[3] = self.s[3].rotate_left(45);
        result
    }

    /// Uniform in 0..n (n > 0).
    pub fn below(&mut self, n: usize) -> usize {
        assert!(n > 0);
        // multiply-shift; bias is irrelevant for the n used here
        (((self.next_u64() >> 11) as u128 * n as u128) >> 53) as usize
    }

    /// Uniform in lo..=hi.
    pub fn range(&mut self, lo: i64, hi: i64) -> i64 {
        assert!(lo <= hi);
        lo + self.below((hi - lo + 1) as usize) as i64
    }

    /// True with probability num/den.
    pub fn chance(&mut self, num: usize, den: usize) -> bool {
        self.below(den) < num
    }

    pub fn pick<'a, T>(&mut self, xs: &'a [T]) -> &'a T {
        &xs[self.below(xs.len())]
    }

    /// Index drawn proportionally to `weights` (not all zero).
    pub fn weighted(&mut self, weights: &[usize]) -> usize {
        let total: usize = weights.iter().sum();
        assert!(total > 0);
        let mut r = self.below(total);
        for (i, w) in weights.iter().enumerate() {
            if r < *w {
                return i;
            }
            r -= *w;
        }
        unreachable!()
    }
}
