mod arenasim;
mod common;
mod exact;
mod gen;
mod lit;
mod logprobe;
mod lpseam;
mod model;
mod oracle;
mod prng;
mod pwlsim;
mod report;

use std::process::ExitCode;

fn usage() -> ExitCode {
    eprintln!(
        "usage:\n  affsim check <C03|C04|C05|C06|C11|C12> <quick|thorough>\n  affsim replay <file>\n  affsim worker <ID> <tier>   (internal)\n\nenvironment: VERIF_SEED (integer), VERIF_TIER (overrides the tier argument), VERIF_THREADS, VERIF_RUNS"
    );
    ExitCode::from(2)
}

fn main() -> ExitCode {
    common::install_panic_hook();
    logprobe::install();
    let args: Vec<String> = std::env::args().collect();
    if args.len() < 2 {
        return usage();
    }
    match args[1].as_str() {
        "check" if args.len() >= 4 => report::supervise(&args[2], &args[3]),
        "worker" if args.len() >= 4 => report::worker(&args[2], &args[3]),
        "runone" if args.len() >= 6 => report::runone(&args[2], args[3].parse().unwrap_or(0), &args[4], &args[5]),
        "replay" if args.len() >= 3 => report::replay_file(&args[2]),
        "selftest-lp" if args.len() >= 4 => report::selftest_lp(args[2].parse().unwrap_or(1000), args[3].parse().unwrap_or(1)),
        "trace" if args.len() >= 4 => report::trace(&args[2], args[3].parse().unwrap_or(0)),
        _ => usage(),
    }
}
