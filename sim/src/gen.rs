//! Seeded generators: swarm knobs, constructors, literal trees, operations, fault plans.
//! Everything is drawn from the run's PRNG in a fixed order; nothing else is consulted.

use crate::lit::*;
use crate::lpseam::{FaultKind, FaultPlan, Mode};
use crate::prng::Prng;

#[derive(Clone, Copy, Debug, PartialEq, Eq)]
pub enum Alphabet {
    Unit,     // {-1,0,1}
    Small,    // {-3..3}
    Halves,   // k/2, |k| <= 4
    Quarters, // k/4, |k| <= 8
    /// "realistic" weights: k/1024 with |k| <= 8192 (24 significant bits); products round in f64,
    /// so runs with this alphabet use real-vs-real references instead of the exact model operations
    Float,
}

impl Alphabet {
    pub fn draw(&self, rng: &mut Prng) -> f64 {
        match self {
            Alphabet::Unit => rng.range(-1, 1) as f64,
            Alphabet::Small => rng.range(-3, 3) as f64,
            Alphabet::Halves => rng.range(-4, 4) as f64 / 2.0,
            Alphabet::Quarters => rng.range(-8, 8) as f64 / 4.0,
            Alphabet::Float => rng.range(-8192, 8192) as f64 / 1024.0,
        }
    }
    pub fn name(&self) -> &'static str {
        match self {
            Alphabet::Unit => "unit",
            Alphabet::Small => "small_int",
            Alphabet::Halves => "halves",
            Alphabet::Quarters => "quarters",
            Alphabet::Float => "float24",
        }
    }
}

pub const N_OPS: usize = 11;
pub const OP_NAMES: [&str; N_OPS] = [
    "apply_func", "compose_unpruned", "compose_pruned", "eliminate", "reduce", "bin", "neg", "scalar", "clone", "slice", "remove_axes",
];

#[derive(Clone, Debug)]
pub struct Knobs {
    pub in_dim: usize,
    pub alphabet: Alphabet,
    pub pool_size: usize,
    pub hist_len: usize,
    pub op_weights: [usize; N_OPS],
    /// per-mille: constructors that yield partial trees
    pub partial_pm: usize,
    /// per-mille: predicates that repeat / negate / shift an earlier predicate
    pub degenerate_pm: usize,
    /// per-mille: zero entries in generated matrices
    pub sparse_pm: usize,
    /// per-mille of steps (beyond the pool) that are whole-pipeline calls
    pub pipeline_pm: usize,
    pub node_cap: usize,
    /// float regime (see Alphabet::Float): also scales whole predicate rows by 1e3 / 1e6 now and then
    pub float_regime: bool,
    /// float regime: rows may also be scaled DOWN (1e-3 / 1e-6). (Was switched off for C06 until fix
    /// b82bb9b: the absolute containment tolerance let empty children inherit witnesses on tiny rows.)
    pub float_downscale: bool,
    /// float regime, C04 runs only: rows of affine maps (layers) are rescaled as well. Composing layers
    /// 1e9 apart in scale puts coefficients below the LP solver's pivot tolerance into one predicate row;
    /// the solver then misjudges or (before fix 0a502e9) panics. C04 judges panics and shapes, not
    /// function equality, so these inputs are in scope there and nowhere else.
    pub float_affscale: bool,
    /// float regime, a quarter of the runs: three predicate rows in four are rescaled and one in ten
    /// is a zero row (a path then mixes constant predicates with rows 1e6..1e12 apart in norm)
    pub float_stress: bool,
}

pub fn gen_knobs(rng: &mut Prng, focus: &str) -> Knobs {
    gen_knobs_depth(rng, focus, false)
}

/// `deep` (thorough tier, every other run): larger dimension, longer histories, bigger trees.
pub fn gen_knobs_depth(rng: &mut Prng, focus: &str, deep: bool) -> Knobs {
    let in_dim = if deep { *rng.pick(&[2usize, 3, 3, 4, 4]) } else { *rng.pick(&[1usize, 2, 2, 2, 3, 3]) };
    let float_regime = rng.chance(1, 3);
    let alphabet = if float_regime {
        let _ = rng.below(5);
        Alphabet::Float
    } else {
        *rng.pick(&[Alphabet::Unit, Alphabet::Small, Alphabet::Small, Alphabet::Halves, Alphabet::Quarters])
    };
    // base weights per focus, then each scaled by 0..3 so that some op kinds vanish in a run (swarm)
    let base: [usize; N_OPS] = match focus {
        // apply, comp_u, comp_p, elim, reduce, bin, neg, scalar, clone, slice, remove_axes
        "C03" => [3, 5, 6, 7, 2, 5, 1, 1, 2, 1, 1],
        "C04" => [4, 5, 5, 5, 3, 4, 2, 2, 2, 1, 1],
        "C05" => [3, 5, 5, 7, 4, 3, 1, 1, 3, 2, 2],
        "C06" => [3, 8, 2, 9, 1, 1, 0, 0, 2, 1, 2],
        _ => [3, 5, 5, 6, 2, 3, 1, 1, 2, 1, 1],
    };
    let mut op_weights = [0usize; N_OPS];
    for i in 0..N_OPS {
        op_weights[i] = base[i] * rng.below(4);
    }
    if op_weights.iter().all(|w| *w == 0) {
        op_weights = base;
    }
    Knobs {
        in_dim,
        alphabet,
        pool_size: 1 + rng.below(if deep { 4 } else { 3 }),
        hist_len: if deep { 4 + rng.below(10) } else { 2 + rng.below(7) },
        op_weights,
        partial_pm: *rng.pick(&[0, 100, 300, 600]),
        degenerate_pm: *rng.pick(&[0, 100, 300, 500]),
        sparse_pm: *rng.pick(&[0, 300, 600]),
        pipeline_pm: *rng.pick(&[0, 0, 100, 300]),
        node_cap: if deep { *rng.pick(&[300, 600, 900]) } else { *rng.pick(&[60, 150, 300]) },
        float_regime,
        float_downscale: float_regime && rng.chance(1, 2),
        float_affscale: float_regime && focus == "C04" && rng.chance(1, 2),
        float_stress: float_regime && rng.chance(1, 3),
    }
}

pub fn gen_aff(rng: &mut Prng, k: &Knobs, indim: usize, outdim: usize) -> AffLit {
    let mut mat = Vec::with_capacity(outdim);
    for _ in 0..outdim {
        let row: Vec<f64> = (0..indim)
            .map(|_| if rng.chance(k.sparse_pm, 1000) { 0.0 } else { k.alphabet.draw(rng) })
            .collect();
        mat.push(row);
    }
    // (rows of affine maps are NOT rescaled in the float regime: composing layers of very different
    // scales mixes magnitudes 1e9 apart *within* one predicate row, and a coefficient below the LP
    // solver's 1e-8 relative tolerance is noise to it - regions that exist only thanks to such a
    // coefficient are "thinner than the solver's tolerance" in every practical sense)
    let mut bias: Vec<f64> = (0..outdim).map(|_| k.alphabet.draw(rng)).collect();
    if k.float_affscale {
        for i in 0..outdim {
            if rng.chance(1, 4) {
                let sc = float_scale(rng, k);
                for v in mat[i].iter_mut() {
                    *v *= sc;
                }
                bias[i] *= sc;
            }
        }
    }
    AffLit { indim, mat, bias }
}

/// A row scale for the float regime: up (1e3, 1e6) and, where allowed, down (1e-3, 1e-6).
fn float_scale(rng: &mut Prng, k: &Knobs) -> f64 {
    if k.float_downscale && rng.chance(1, 2) {
        *rng.pick(&[1e-3, 1e-3, 1e-6])
    } else {
        *rng.pick(&[1e3, 1e3, 1e6])
    }
}

/// One predicate row a.x <= b; with probability degenerate_pm derived from an earlier one
/// (same, opposite, parallel shifted), otherwise fresh (rarely the zero row). `earlier` holds the
/// predicates *before* the float regime's row scaling, so that derived rows are geometrically
/// related (a slab of width 1e-3) whatever their individual scales; the function appends to it.
pub fn gen_pred(rng: &mut Prng, k: &Knobs, indim: usize, earlier: &mut Vec<(Vec<f64>, f64)>) -> (Vec<f64>, f64) {
    let base: (Vec<f64>, f64) = if !earlier.is_empty() && rng.chance(k.degenerate_pm, 1000) {
        let (a, b) = rng.pick(earlier).clone();
        // tiny: a slab / a gap of width 2^-6 .. 2^-10 between two parallel hyperplanes (still far above
        // the tolerance band, but close enough for tolerance-handling mistakes to show)
        let tiny = *rng.pick(&[0.015625, 0.00390625, 0.0009765625]);
        match rng.below(7) {
            0 => (a, b),
            1 => (a.iter().map(|v| -v).collect(), -b),
            2 => (a, b + k.alphabet.draw(rng)),
            3 => (a.iter().map(|v| -v).collect(), -b + k.alphabet.draw(rng).abs()),
            4 => (a.iter().map(|v| -v).collect(), -b - k.alphabet.draw(rng).abs()),
            5 => (a.iter().map(|v| -v).collect(), -b + tiny),
            _ => (a.iter().map(|v| -v).collect(), -b - tiny),
        }
    } else {
        let zero_row = rng.chance(if k.float_stress { 100 } else if k.float_regime { 50 } else { 15 }, 1000);
        let a: Vec<f64> = if zero_row {
            vec![0.0; indim]
        } else {
            loop {
                let a: Vec<f64> = (0..indim)
                    .map(|_| if rng.chance(k.sparse_pm / 2, 1000) { 0.0 } else { k.alphabet.draw(rng) })
                    .collect();
                if a.iter().any(|v| *v != 0.0) {
                    break a;
                }
            }
        };
        let mut b = k.alphabet.draw(rng);
        if k.float_regime && rng.chance(1, 10) {
            // a threshold far from the origin (65536 = 2^16 keeps the mantissa short)
            b *= 65536.0;
        } else if !k.float_regime && rng.chance(1, 24) {
            // exact regime: a region millions of units away from the origin (2^22; still an exact
            // dyadic below 2^24, so sums stay exact; such trees are not offered to multiplying
            // operations). The float regime judges FAT regions inside |x| <= 1e4 only, this is the
            // place where far-away regions are covered.
            b *= 4194304.0;
        }
        (a, b)
    };
    earlier.push(base.clone());
    if k.float_regime && rng.chance(if k.float_stress { 3 } else { 1 }, 4) {
        let sc = float_scale(rng, k);
        return (base.0.iter().map(|v| v * sc).collect(), base.1 * sc);
    }
    base
}

fn pred_lit(indim: usize, p: &(Vec<f64>, f64)) -> AffLit {
    AffLit { indim, mat: vec![p.0.clone()], bias: vec![p.1] }
}

pub fn gen_schema(rng: &mut Prng, dim: usize, want_out_one: bool) -> SchemaLit {
    let dy = |rng: &mut Prng| rng.range(-4, 4) as f64 / 2.0;
    if want_out_one {
        // dim -> 1
        return match rng.below(if dim >= 2 { 3 } else { 1 }) {
            0 => {
                let mn = dy(rng);
                let mx = mn + rng.range(0, 4) as f64 / 2.0;
                match rng.below(3) {
                    0 => SchemaLit::InfNorm { dim, min: Some(mn), max: Some(mx) },
                    1 => SchemaLit::InfNorm { dim, min: Some(mn), max: None },
                    _ => SchemaLit::InfNorm { dim, min: None, max: Some(mx) },
                }
            }
            1 => SchemaLit::ClassChar { dim, clazz: rng.below(dim) },
            _ => SchemaLit::Argmax { dim },
        };
    }
    let row = rng.below(dim);
    match rng.below(7) {
        0 | 1 => SchemaLit::Relu { dim, row },
        2 => SchemaLit::LeakyRelu { dim, row, alpha: *rng.pick(&[0.5, 0.25, 0.125, 2.0, -1.0]) },
        3 => {
            let mn = dy(rng);
            SchemaLit::HardTanh { dim, row, min: mn, max: mn + rng.range(0, 4) as f64 / 2.0 }
        }
        4 => SchemaLit::HardShrink { dim, row, lambda: rng.range(0, 4) as f64 / 2.0 },
        5 => SchemaLit::Threshold { dim, row, threshold: dy(rng), value: dy(rng) },
        _ => SchemaLit::Relu { dim, row },
    }
}

/// A random literal tree (built with add_child_node), well-formed by construction, possibly
/// partial, possibly with infeasible / thin paths.
pub fn gen_literal(rng: &mut Prng, k: &Knobs, in_dim: usize, out_dim: usize) -> TreeLit {
    let max_depth = 1 + rng.below(3);
    let mut nodes: Vec<NodeLit> = Vec::new();
    let mut preds: Vec<(Vec<f64>, f64)> = Vec::new();
    // (position, depth, is_decision)
    let root_pred = gen_pred(rng, k, in_dim, &mut preds);
    nodes.push(NodeLit { parent: None, label: 0, aff: pred_lit(in_dim, &root_pred) });
    let mut frontier: Vec<(usize, usize)> = vec![(0, 0)];
    while let Some((pos, depth)) = frontier.pop() {
        let mut created = 0;
        let mut sibling_terminal: Option<AffLit> = None;
        for label in 0..2 {
            let missing = rng.chance(k.partial_pm / 2, 1000);
            if missing && !(label == 1 && created == 0) {
                continue;
            }
            created += 1;
            let decision = depth + 1 < max_depth && rng.chance(1, 2) && nodes.len() < 14;
            if decision {
                let p = gen_pred(rng, k, in_dim, &mut preds);
                nodes.push(NodeLit { parent: Some(pos), label, aff: pred_lit(in_dim, &p) });
                frontier.push((nodes.len() - 1, depth + 1));
            } else {
                let mut aff = gen_aff(rng, k, in_dim, out_dim);
                // equal sibling terminals now and then: `reduce` only does something on those
                if let Some(sib) = &sibling_terminal {
                    if rng.chance(1, 4) {
                        aff = sib.clone();
                    }
                }
                if label == 0 {
                    sibling_terminal = Some(aff.clone());
                }
                nodes.push(NodeLit { parent: Some(pos), label, aff });
            }
        }
    }
    TreeLit { in_dim, nodes }
}

pub fn gen_poly(rng: &mut Prng, k: &Knobs, in_dim: usize) -> AffLit {
    let rows = 1 + rng.below(3);
    let mut earlier: Vec<(Vec<f64>, f64)> = Vec::new();
    let mut preds: Vec<(Vec<f64>, f64)> = Vec::new();
    for _ in 0..rows {
        let p = gen_pred(rng, k, in_dim, &mut earlier);
        preds.push(p);
    }
    AffLit { indim: in_dim, mat: preds.iter().map(|p| p.0.clone()).collect(), bias: preds.iter().map(|p| p.1).collect() }
}

/// A pool tree with the given input dimension; returns (ctor, out_dim).
pub fn gen_ctor(rng: &mut Prng, k: &Knobs, in_dim: usize) -> (Ctor, usize) {
    let out_dim = 1 + rng.below(3);
    match rng.below(10) {
        0 => (Ctor::New { dim: in_dim }, in_dim),
        1 | 2 => (Ctor::FromAff { aff: gen_aff(rng, k, in_dim, out_dim) }, out_dim),
        3 | 4 => {
            let partial = rng.chance(k.partial_pm.max(150), 1000);
            (
                Ctor::FromPoly {
                    poly: gen_poly(rng, k, in_dim),
                    f_true: gen_aff(rng, k, in_dim, out_dim),
                    f_false: if partial { None } else { Some(gen_aff(rng, k, in_dim, out_dim)) },
                },
                out_dim,
            )
        }
        5 | 6 => {
            let one = rng.chance(1, 4);
            let s = gen_schema(rng, in_dim, one);
            let od = s.out_dim();
            (Ctor::Schema { schema: s }, od)
        }
        7 => {
            let point: Vec<Option<f64>> =
                (0..in_dim).map(|_| if rng.chance(1, 2) { Some(rng.range(-2, 2) as f64) } else { None }).collect();
            (Ctor::FromSlice { point }, in_dim)
        }
        _ => (Ctor::Literal { tree: gen_literal(rng, k, in_dim, out_dim) }, out_dim),
    }
}

/// What the generator needs to know about a pool slot (taken from the reference model).
#[derive(Clone, Debug)]
pub struct SlotInfo {
    pub in_dim: usize,
    pub out_dim: usize,
    pub leaves: usize,
    pub nodes: usize,
    /// all coefficients are k*2^-12 with |.| < 2^12: products with another such tree are exact in f64
    pub fits12: bool,
    /// all coefficients are k*2^-24 with |.| < 2^24: sums are exact
    pub fits24: bool,
}

pub fn gen_pipeline(rng: &mut Prng, k: &Knobs, slot: usize) -> Op {
    let dim = 1 + rng.below(3);
    let mut layers = Vec::new();
    let pre = if rng.chance(1, 3) {
        // precondition: a (partial or total) box-like region, identity inside
        let partial = rng.chance(2, 3);
        let ident = AffLit {
            indim: dim,
            mat: (0..dim).map(|i| (0..dim).map(|j| if i == j { 1.0 } else { 0.0 }).collect()).collect(),
            bias: vec![0.0; dim],
        };
        let other = gen_aff(rng, k, dim, dim);
        Some(Ctor::FromPoly { poly: gen_poly(rng, k, dim), f_true: ident, f_false: if partial { None } else { Some(other) } })
    } else {
        None
    };
    let mut cur = dim;
    let n_blocks = 1 + rng.below(2);
    let mut budget = 6usize; // total number of activation neurons
    for _ in 0..n_blocks {
        let h = 1 + rng.below(3);
        let mut aff = gen_aff(rng, k, cur, h);
        if k.float_regime && h >= 2 && rng.chance(1, 3) {
            // (float regime only: three layers of such numbers no longer multiply exactly)
            // neuron j = a tiny, negated copy of neuron i, shifted by a hair: the activation regions
            // "both off" are empty by `gap`, "both on" is a slab of that width - on a row whose norm is
            // 1e-3 .. 1e-5 of its twin's (all factors are powers of two: exact in either regime)
            let i = rng.below(h);
            let j = (i + 1 + rng.below(h - 1)) % h;
            let sc = *rng.pick(&[0.0009765625, 0.0001220703125, 0.00000762939453125]);
            let gap = *rng.pick(&[0.0009765625, 0.000244140625, 0.00006103515625]);
            let row: Vec<f64> = aff.mat[i].iter().map(|v| -sc * v).collect();
            aff.mat[j] = row;
            aff.bias[j] = -sc * aff.bias[i] + sc * gap;
        }
        layers.push(LayerLit::Linear { aff });
        cur = h;
        for row in 0..h {
            if budget == 0 {
                break;
            }
            budget -= 1;
            layers.push(match rng.below(6) {
                0 => LayerLit::LeakyRelu { row, alpha: *rng.pick(&[0.5, 0.25, 0.125]) },
                1 => LayerLit::HardTanh { row },
                _ => LayerLit::Relu { row },
            });
        }
    }
    if rng.chance(1, 2) {
        let o = 1 + rng.below(3);
        layers.push(LayerLit::Linear { aff: gen_aff(rng, k, cur, o) });
        cur = o;
    }
    if cur >= 2 && rng.chance(1, 3) {
        if rng.chance(1, 4) {
            layers.push(LayerLit::Argmax);
        } else {
            layers.push(LayerLit::ClassChar { clazz: rng.below(cur) });
        }
    }
    Op::Pipeline { slot, dim, layers, pre }
}

/// Draws the next operation. `only_pruning`: restrict to operations during which the library prunes.
pub fn gen_op(rng: &mut Prng, k: &Knobs, slots: &[SlotInfo], only_pruning: bool) -> Option<Op> {
    if rng.chance(k.pipeline_pm, 1000) {
        let slot = rng.below(slots.len());
        return Some(gen_pipeline(rng, k, slot));
    }
    for _attempt in 0..40 {
        let s = rng.below(slots.len());
        let info = &slots[s];
        let mut weights = k.op_weights;
        if only_pruning {
            for i in [0usize, 1, 4, 6, 7, 8, 10] {
                weights[i] = 0;
            }
            if weights.iter().all(|w| *w == 0) {
                weights[3] = 1;
                weights[2] = 1;
            }
        }
        let kind = rng.weighted(&weights);
        match kind {
            0 => {
                if !info.fits12 {
                    continue;
                }
                let od = 1 + rng.below(3);
                return Some(Op::ApplyFunc { slot: s, aff: gen_aff(rng, k, info.out_dim, od) });
            }
            1 | 2 => {
                if !info.fits12 {
                    continue;
                }
                let prune = kind == 2;
                // other: a pool slot whose input dim matches, or a schema
                let cands: Vec<usize> = (0..slots.len())
                    .filter(|j| slots[*j].in_dim == info.out_dim && slots[*j].fits12 && info.leaves * slots[*j].nodes <= k.node_cap)
                    .collect();
                if !cands.is_empty() && rng.chance(1, 3) {
                    return Some(Op::Compose { slot: s, prune, other: TreeArg::Slot { slot: *rng.pick(&cands) } });
                }
                let one = rng.chance(1, 6);
                let schema = gen_schema(rng, info.out_dim, one);
                let est = info.leaves * 7;
                if est > k.node_cap {
                    continue;
                }
                return Some(Op::Compose { slot: s, prune, other: TreeArg::Schema { schema } });
            }
            3 => return Some(Op::Eliminate { slot: s }),
            4 => return Some(Op::Reduce { slot: s }),
            5 => {
                let kind = *rng.pick(&[BinKind::Add, BinKind::Add, BinKind::Sub, BinKind::Sub, BinKind::Mul]);
                let need12 = kind == BinKind::Mul;
                if (need12 && !info.fits12) || !info.fits24 {
                    continue;
                }
                let cands: Vec<usize> = (0..slots.len())
                    .filter(|j| {
                        slots[*j].in_dim == info.in_dim
                            && slots[*j].out_dim == info.out_dim
                            && (if need12 { slots[*j].fits12 } else { slots[*j].fits24 })
                            && info.leaves * slots[*j].nodes <= k.node_cap
                    })
                    .collect();
                if !cands.is_empty() && rng.chance(2, 3) {
                    return Some(Op::Bin { kind, slot: s, other: TreeArg::Slot { slot: *rng.pick(&cands) } });
                }
                // a schema with the same signature: in -> in (out == in) or in -> 1
                if info.out_dim == info.in_dim && info.leaves * 7 <= k.node_cap {
                    let schema = gen_schema(rng, info.in_dim, false);
                    return Some(Op::Bin { kind, slot: s, other: TreeArg::Schema { schema } });
                }
                if info.out_dim == 1 && info.leaves * 9 <= k.node_cap {
                    let schema = gen_schema(rng, info.in_dim, true);
                    return Some(Op::Bin { kind, slot: s, other: TreeArg::Schema { schema } });
                }
                continue;
            }
            6 => return Some(Op::Neg { slot: s }),
            7 => {
                let kind = *rng.pick(&[BinKind::Add, BinKind::Sub, BinKind::Mul]);
                if (kind == BinKind::Mul && !info.fits12) || !info.fits24 {
                    continue;
                }
                return Some(Op::Scalar {
                    kind,
                    slot: s,
                    aff: gen_aff(rng, k, info.in_dim, info.out_dim),
                    aff_left: rng.chance(1, 2),
                });
            }
            8 => {
                if slots.len() < 2 {
                    continue;
                }
                let mut to = rng.below(slots.len());
                if to == s {
                    to = (to + 1) % slots.len();
                }
                return Some(Op::CloneTo { from: s, to });
            }
            10 => {
                if info.in_dim < 2 {
                    continue;
                }
                let mut keep = vec![true; info.in_dim];
                keep[rng.below(info.in_dim)] = false;
                if info.in_dim >= 3 && rng.chance(1, 4) {
                    let j = rng.below(info.in_dim);
                    if keep.iter().filter(|k| **k).count() > 1 {
                        keep[j] = false;
                    }
                }
                if keep.iter().all(|k| !*k) {
                    continue;
                }
                return Some(Op::RemoveAxes { slot: s, keep });
            }
            _ => {
                if info.in_dim < 2 || !info.fits12 {
                    continue;
                }
                let fix = rng.below(info.in_dim);
                let mut point: Vec<Option<f64>> = vec![None; info.in_dim];
                point[fix] = Some(k.alphabet.draw(rng));
                if info.in_dim == 3 && rng.chance(1, 3) {
                    point[(fix + 1) % 3] = Some(k.alphabet.draw(rng));
                }
                return Some(Op::Slice { slot: s, point });
            }
        }
    }
    None
}

pub fn gen_mode(rng: &mut Prng) -> Mode {
    if rng.chance(1, 2) {
        Mode::Real
    } else {
        Mode::Legal
    }
}

/// Seeded multi-fault plan over call indices 0..n (relative to the start of the faulty suffix).
pub fn gen_fault_plan(rng: &mut Prng, n: usize) -> FaultPlan {
    let mut plan = FaultPlan::default();
    if n == 0 {
        return plan;
    }
    match rng.below(5) {
        0 => {
            // 2-3 faults
            for _ in 0..(2 + rng.below(2)) {
                plan.faults.insert(rng.below(n), FaultKind::random(rng));
            }
        }
        1 => bernoulli(rng, n, 100, &mut plan),
        2 => bernoulli(rng, n, 300, &mut plan),
        3 => bernoulli(rng, n, 1000, &mut plan),
        _ => {
            // one family on a burst of consecutive calls
            let kind = FaultKind::random(rng);
            let start = rng.below(n);
            let len = 1 + rng.below(4);
            for i in start..(start + len).min(n + 8) {
                plan.faults.insert(i, kind.clone());
            }
        }
    }
    plan
}

fn bernoulli(rng: &mut Prng, n: usize, pm: usize, plan: &mut FaultPlan) {
    // also cover calls that only exist because of earlier faults (less pruning => more calls)
    for i in 0..(n + n / 2 + 4).min(64 + n) {
        if rng.chance(pm, 1000) {
            plan.faults.insert(i, FaultKind::random(rng));
        }
    }
}
