//! C06 / clause 2 (and the idempotence clause): after `infeasible_elimination` a decision below
//! the root is left with a single branch instead of being replaced by that branch.
//!
//! Mechanism: the LP reports the path polytope of a node as feasible, but the returned vertex
//! fails `Polytope::contains` (absolute 1e-8 on the *un-normalised* rows) and `mirror_points`
//! cannot repair it (sharp wedge between two nearly parallel half-spaces).  `phase_two` then
//! returns `NodeState::Indeterminate`.  `forward_if_redundant` only counts children whose state
//! `is_feasible()`, so the parent is not forwarded, yet its infeasible child is removed at the
//! end of the run -> single-branch decision.  `Indeterminate` is not cached, so a second run
//! solves the same LPs again.
//!
//! 3-D input, all weights/thresholds have at most 5 significant digits and magnitude in [0.7, 4].
//! With u(x) = -1.7x + 0.9y - 2z the tree is
//!
//!   root: 0.7x + 1.3y + 2z <= -1.7
//!     0: terminal 1
//!     1: u <= 1
//!         0: terminal 2
//!         1: 1.7001x - 0.9y + 2z <= -4         (i.e. u >= 4 + 1e-4 x: nearly parallel to u <= 1)
//!              0: terminal 3
//!              1: D: u <= 3
//!                   0: terminal 100   -> needs u >= 3 and u <= 1: empty (by 2/|grad u|)
//!                   1: terminal 101   -> full-dimensional, contains P = (-4e4, -75555, 0)
use affinitree::distill::builder::{afftree_from_layers, Layer};
use affinitree::linalg::affine::AffFunc;
use affinitree::pwl::afftree::AffTree;
use ndarray::{arr1, arr2};

fn pred(a: [f64; 3], b: f64) -> AffFunc {
    AffFunc::from_mats(arr2(&[a]), arr1(&[b]))
}
fn term(v: f64) -> AffFunc {
    AffFunc::constant(3, v)
}

fn build() -> AffTree<2> {
    let mut dd = AffTree::<2>::from_aff(pred([0.7, 1.3, 2.0], -1.7)); // 0
    dd.add_child_node(0, 0, term(1.0)).unwrap(); // 1
    let d1 = dd.add_child_node(0, 1, pred([-1.7, 0.9, -2.0], 1.0)).unwrap(); // 2
    dd.add_child_node(d1, 0, term(2.0)).unwrap(); // 3
    let d2 = dd.add_child_node(d1, 1, pred([1.7001, -0.9, 2.0], -4.0)).unwrap(); // 4
    dd.add_child_node(d2, 0, term(3.0)).unwrap(); // 5
    let d3 = dd.add_child_node(d2, 1, pred([-1.7, 0.9, -2.0], 3.0)).unwrap(); // 6 = D
    dd.add_child_node(d3, 0, term(100.0)).unwrap(); // 7 (empty)
    dd.add_child_node(d3, 1, term(101.0)).unwrap(); // 8 (full-dimensional)
    dd
}

fn single_branch_decisions(dd: &AffTree<2>) -> Vec<String> {
    let root = dd.tree.get_root_idx();
    dd.tree
        .node_iter()
        .filter(|(idx, n)| *idx != root && !n.isleaf && dd.tree.num_children(*idx) != 2)
        .map(|(idx, n)| {
            format!(
                "decision {idx} has {} child(ren) {:?}, state {:?}",
                dd.tree.num_children(idx),
                n.children,
                n.value.state
            )
        })
        .collect()
}

#[test]
fn decision_left_with_single_branch() {
    let orig = build();
    for (idx, n) in orig.tree.node_iter() {
        assert!(n.isleaf || orig.tree.num_children(idx) == 2, "input tree is total");
    }
    // the region of terminal 101 is full-dimensional: P and the points at distance 0.1 around it are mapped to 101
    // (at P: u = 0.5, 1.7001x - 0.9y + 2z = -4.5, 0.7x + 1.3y + 2z = -126221.5; the path region
    // is the wedge 4 + 1e-4 x <= u <= 1, i.e. x <= -3e4)
    let p = arr1(&[-4e4, -75555.0, 0.0]);
    for d in [[0., 0., 0.], [0.1, 0., 0.], [-0.1, 0., 0.], [0., 0.1, 0.], [0., -0.1, 0.], [0., 0., 0.1], [0., 0., -0.1]] {
        assert_eq!(orig.evaluate(&(&p + &arr1(&d))).unwrap()[0], 101.0);
    }

    let mut dd = orig.clone();
    let c1 = dd.infeasible_elimination();
    println!("first run : {:?}", c1);
    // function is preserved at P (the kept child is the feasible one)
    assert_eq!(dd.evaluate(&p).unwrap()[0], 101.0);

    let bad = single_branch_decisions(&dd);
    assert!(
        bad.is_empty(),
        "after infeasible_elimination a decision below the root has a single branch: {:?}\n(first run counter: {:?})",
        bad,
        c1
    );
}

#[test]
fn second_run_is_not_short_circuited() {
    let mut dd = build();
    dd.infeasible_elimination();
    let c2 = dd.infeasible_elimination();
    println!("second run: {:?}", c2);
    assert_eq!(
        c2.lps_solved, 0,
        "second run of infeasible_elimination solved LPs again (states were not cached): {:?}",
        c2
    );
}

/// The same four half-spaces as the pre-activations of a one-hidden-layer ReLU network
/// (3 inputs, 4 neurons, weights of magnitude 0.7 .. 4), distilled with the library's own
/// compose / eliminate pipeline (`afftree_from_layers` composes `partial_ReLU(i)` un-pruned and
/// calls `infeasible_elimination` after every neuron).
#[test]
fn distilled_network_has_single_branch_decision() {
    let w = arr2(&[
        [0.7, 1.3, 2.0],
        [-1.7, 0.9, -2.0],
        [1.7001, -0.9, 2.0],
        [-1.7, 0.9, -2.0],
    ]);
    let b = arr1(&[1.7, -1.0, 4.0, -3.0]);
    let layers = [
        Layer::Linear(AffFunc::from_mats(w, b)),
        Layer::ReLU(0),
        Layer::ReLU(1),
        Layer::ReLU(2),
        Layer::ReLU(3),
    ];
    let mut dd = afftree_from_layers(3, &layers, None);
    dd.infeasible_elimination();
    let bad = single_branch_decisions(&dd);
    assert!(
        bad.is_empty(),
        "distilled network: a decision below the root has a single branch: {:?}",
        bad
    );
}
