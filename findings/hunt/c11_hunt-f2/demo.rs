#![cfg(affinitree_verif)]
// C11 / finding 2
//
// A far-off "optimal" point that is NOT in the polytope (LP fault kind "far-off witness",
// |coordinates| < 1e15) ends up as a cached, unsound verdict:  a child whose path polytope is
// EXACTLY infeasible (margin 2.2e-2 / 2.2e-5, far above the 1e-6 "thin region" allowance) is
// cached as `NodeState::FeasibleWitness(w)` with a witness w that violates the child's path
// polytope by that same margin (far above the 1e-8 containment tolerance).
//
// Mechanism: phase_two repairs the far-off point with `mirror_points` and caches the repaired
// (still far-off, |w| ~ 8e14) point at N.  phase_inh then tests the child's new half-space with
// `Polytope::contains`, i.e. `b - (c*w0 - c*w1) >= -1e-8` evaluated in f64.  At |w| ~ 8e14 the
// two products are rounded to multiples of 1/16, so the test passes although the exact value of
// c*(w0 - w1) = c*1 exceeds b by 2.6e-2.  The verdict is cached, survives later fault-free runs
// (cached nodes are never re-checked) and is trusted by `is_edge_feasible` in pruned compositions.
//
// Run:
// RUSTFLAGS="--cfg affinitree_verif" CARGO_NET_OFFLINE=true cargo test --offline \
//     --target-dir /tmp/wt_c11/target_verif --test c11_f2_demo

use affinitree::aff;
use affinitree::linalg::polyhedron::PolytopeStatus;
use affinitree::pwl::afftree::AffTree;
use affinitree::pwl::node::NodeState;
use affinitree::verif_hooks::{reset_lp_calls, set_lp_interceptor};
use ndarray::{arr1, Array1};

///                 root: x0 - x1 <= 1
///              /0                     \1
///   N: c*x0 - c*x1 <= b  (b < c)      T(0)
///      /0          \1
///   D: T(2)      C: T(1)       path(C) = { x0 - x1 >= 1,  c*(x0 - x1) <= b }  = empty
fn build(c: f64, b: f64) -> AffTree<2> {
    let mut t = AffTree::<2>::from_aff(aff!([[1., -1.]] + [1.]));
    let n = t.add_child_node(0, 0, aff!([[c, -c]] + [b])).unwrap(); // idx 1
    t.add_child_node(0, 1, aff!([[0., 0.]] + [0.])).unwrap(); // idx 2
    t.add_child_node(n, 0, aff!([[0., 0.]] + [2.])).unwrap(); // idx 3 (D)
    t.add_child_node(n, 1, aff!([[0., 0.]] + [1.])).unwrap(); // idx 4 (C)
    t
}

fn scenario(c: f64, b: f64, bad: Array1<f64>) {
    assert!(b < c);
    let orig = build(c, b);
    let probes = [arr1(&[0., 0.]), arr1(&[3., 0.]), arr1(&[1.5, 0.25]), arr1(&[-2., 7.])];

    // fault-free: C (idx 4) is recognised as infeasible and pruned, N is forwarded
    let mut ff = orig.clone();
    ff.infeasible_elimination();
    assert!(!ff.tree.contains(4), "fault-free run should prune the infeasible node C");
    for p in &probes {
        assert_eq!(orig.evaluate(p), ff.evaluate(p));
    }

    // LP call #0 is the feasibility check of N (polytope { x0 - x1 >= 1 }).  The faulty backend
    // answers "Optimal" with a far-off point that violates that polytope.
    assert!(bad[0] - bad[1] < 1.0);
    let bad2 = bad.clone();
    reset_lp_calls();
    set_lp_interceptor(Some(Box::new(move |idx, poly, _obj, real| {
        if idx == 0 {
            assert!(!poly.contains(&bad2), "injected point must lie outside the polytope");
            PolytopeStatus::Optimal(bad2.clone())
        } else {
            real()
        }
    })));
    let mut t = orig.clone();
    t.infeasible_elimination();
    set_lp_interceptor(None);

    // permitted: less pruning.  The function is indeed unchanged.
    for p in &probes {
        assert_eq!(orig.evaluate(p), t.evaluate(p));
    }

    // NOT permitted: an unsound verdict / witness in the cache.
    if t.tree.contains(4) {
        let state = t.tree.node_value(4).unwrap().state.clone();
        if let NodeState::FeasibleWitness(ws) = &state {
            for w in ws {
                // exact evaluation of C's second path constraint c*x0 - c*x1 <= b:
                // w0 - w1 is exact in f64 (Sterbenz), the product adds one rounding (~1e-16)
                let diff = w[0] - w[1];
                let violation = c * diff - b;
                let euclid = violation / (c * 2f64.sqrt());
                assert!(
                    violation <= 1e-8,
                    "C11 violated: node C has the exactly infeasible path polytope {{x0-x1>=1, {c}*(x0-x1)<={b}}} \
                     (margin {:.3e}) but is cached as FeasibleWitness({w}); the witness has x0-x1={diff} and violates \
                     C's constraint by {violation:.3e} (euclidean {euclid:.3e})",
                    (c - b) / (c * 2f64.sqrt())
                );
            }
        }
        assert!(
            !state.is_feasible(),
            "C11 violated: infeasible node C cached as feasible: {state:?}"
        );
    }
}

#[test]
fn far_off_witness_8e14_caches_feasible_verdict_for_infeasible_child() {
    // margin of the infeasible region: (c-b)/(c*sqrt 2) = 2.2e-2
    scenario(0.83, 0.8040625, arr1(&[823269851629709.5, 823269851629709.0]));
}

#[test]
fn far_off_witness_9e11_caches_feasible_verdict_for_infeasible_child() {
    // margin of the infeasible region: 2.2e-5
    scenario(0.988, 0.9879698486328125, arr1(&[856785927366.9995, 856785927366.0]));
}
