//! C03 finding f1: a feasible, thick region is pruned because the LP backend reports the path
//! polytope as infeasible when one predicate mixes coefficients of very different scale
//! (normalized coefficient below minilp's 1e-8 pivot tolerance) and the region only exists for a
//! large coordinate.  All numbers are within [1e-6, 1e7].
//!
//! Region of the removed path:  x0 >= 0.001  and  1000*x0 + 5e-6*x1 <= 0
//!   <=>  0.001 <= x0 <= -5e-9 * x1,   non-empty for x1 <= -2e5, 0.049 wide at x1 = -1e7.
//! The probe input (0.02, -1e7) has distance 0.019 resp. 0.03 to the two hyperplanes.
use affinitree::distill::builder::{afftree_from_layers, Layer};
use affinitree::distill::schema::partial_ReLU;
use affinitree::linalg::affine::AffFunc;
use affinitree::pwl::afftree::AffTree;
use ndarray::{arr1, arr2, Array1};

fn pred(a: [f64; 2], b: f64) -> AffFunc {
    // decision predicate  a . x <= b  (label 1 when it holds)
    AffFunc::from_mats(arr2(&[a]), arr1(&[b]))
}

fn probe() -> Array1<f64> {
    arr1(&[0.02, -1.0e7])
}

/// x0 <= 0.001 ? 100 : ( 1000 x0 + 5e-6 x1 <= 0 ? 2 : 1 )
fn tree() -> AffTree<2> {
    let mut t = AffTree::<2>::from_aff(pred([1.0, 0.0], 0.001));
    let n = t.add_child_node(0, 0, pred([1000.0, 5.0e-6], 0.0)).unwrap();
    t.add_child_node(0, 1, AffFunc::constant(2, 100.0)).unwrap();
    t.add_child_node(n, 0, AffFunc::constant(2, 1.0)).unwrap();
    t.add_child_node(n, 1, AffFunc::constant(2, 2.0)).unwrap();
    t
}

#[test]
fn infeasible_elimination_changes_value() {
    let t = tree();
    let x = probe();
    let before = t.evaluate(&x).unwrap();
    assert_eq!(before[0], 2.0);

    let mut p = t.clone();
    p.infeasible_elimination();
    let after = p.evaluate(&x);
    assert_eq!(
        Some(before),
        after,
        "infeasible_elimination changed the value at {:?} (tree went from {} to {} nodes)",
        x,
        t.len(),
        p.len()
    );
}

#[test]
fn compose_with_pruning_differs_from_compose_without() {
    // first stage: identity on both sides of the decision x0 <= 0.001
    let mut a = AffTree::<2>::from_aff(pred([1.0, 0.0], 0.001));
    a.add_child_node(0, 0, AffFunc::identity(2)).unwrap();
    a.add_child_node(0, 1, AffFunc::identity(2)).unwrap();
    // second stage: 1000 y0 + 5e-6 y1 <= 0 ? 2 : 1
    let mut b = AffTree::<2>::from_aff(pred([1000.0, 5.0e-6], 0.0));
    b.add_child_node(0, 0, AffFunc::constant(2, 1.0)).unwrap();
    b.add_child_node(0, 1, AffFunc::constant(2, 2.0)).unwrap();

    let mut unpruned = a.clone();
    unpruned.compose::<false, false>(&b);
    let mut pruned = a.clone();
    pruned.compose::<true, false>(&b);

    let x = probe();
    let direct = b.evaluate(&a.evaluate(&x).unwrap());
    assert_eq!(direct, unpruned.evaluate(&x));
    assert_eq!(
        unpruned.evaluate(&x),
        pruned.evaluate(&x),
        "compose::<true,_> differs from compose::<false,_> at {:?}",
        x
    );
}

#[test]
fn tree_addition_prunes_feasible_branch() {
    // a(x) = x0 <= 0.001 ? 100 : 0
    let mut a = AffTree::<2>::from_aff(pred([1.0, 0.0], 0.001));
    a.add_child_node(0, 0, AffFunc::constant(2, 0.0)).unwrap();
    a.add_child_node(0, 1, AffFunc::constant(2, 100.0)).unwrap();
    // b(x) = 1000 x0 + 5e-6 x1 <= 0 ? 2 : 1
    let mut b = AffTree::<2>::from_aff(pred([1000.0, 5.0e-6], 0.0));
    b.add_child_node(0, 0, AffFunc::constant(2, 1.0)).unwrap();
    b.add_child_node(0, 1, AffFunc::constant(2, 2.0)).unwrap();

    let x = probe();
    let expected = a.evaluate(&x).unwrap() + b.evaluate(&x).unwrap();
    let sum = &a + &b;
    assert_eq!(Some(expected), sum.evaluate(&x), "(a + b)(x) != a(x) + b(x) at {:?}", x);
}

/// The same defect through the documented distillation pipeline (compose + infeasible_elimination
/// after every ReLU): a two-neuron ReLU network on two un-normalized features
/// (x0 ~ 1e-2 with weight 100, x1 ~ 1e6 with weight 1e-6).
///   h0 = relu(100 x0 - 0.5), h1 = relu(1e-6 x1 - 100 x0), y = h0 + h1
/// The region where both neurons are active (0.005 <= x0 <= 1e-8 x1) is pruned.
#[test]
fn distilled_two_neuron_relu_network_is_wrong() {
    let l1 = AffFunc::from_mats(arr2(&[[100.0, 0.0], [-100.0, 1.0e-6]]), arr1(&[-0.5, 0.0]));
    let l2 = AffFunc::from_mats(arr2(&[[1.0, 1.0]]), arr1(&[0.0]));
    let layers = vec![
        Layer::Linear(l1.clone()),
        Layer::ReLU(0),
        Layer::ReLU(1),
        Layer::Linear(l2.clone()),
    ];
    // pruned (library pipeline) and unpruned (same steps, no pruning) trees
    let pruned = afftree_from_layers(2, &layers, None);
    let mut unpruned = AffTree::<2>::new(2);
    unpruned.apply_func(&l1);
    unpruned.compose::<false, false>(&partial_ReLU(2, 0));
    unpruned.compose::<false, false>(&partial_ReLU(2, 1));
    unpruned.apply_func(&l2);

    let x = arr1(&[0.02, 5.0e6]);
    let net = l2.apply(&l1.apply(&x).mapv(|v| v.max(0.0)));
    assert_eq!(net[0], 4.5);
    assert_eq!(unpruned.evaluate(&x).unwrap()[0], 4.5);
    assert_eq!(
        unpruned.evaluate(&x),
        pruned.evaluate(&x),
        "pruned distillation differs from the network / the unpruned tree at {:?}",
        x
    );
}
