//! C03 finding f2: nearly parallel (not parallel) predicates. The two hyperplanes of the first two
//! decisions enclose an angle of about 1.8e-6 rad, so the wedge between them only opens far from
//! the origin (|x| > 3e4); inside the box |x_i| <= 1e7 it is up to ~1.9e-3 thick (three orders of
//! magnitude above the 1e-6 the property grants). The LP backend reports the path polytope of the
//! branch below as infeasible, infeasible_elimination removes the branch and skips the decision,
//! and the value at an input of that region changes.
//! (Numbers taken from a random search hit: seed 10662 of the compose campaign.)
use affinitree::linalg::affine::AffFunc;
use affinitree::pwl::afftree::AffTree;
use ndarray::{arr1, arr2};

fn pred(a: [f64; 3], b: f64) -> AffFunc {
    AffFunc::from_mats(arr2(&[a]), arr1(&[b]))
}

#[test]
fn near_parallel_wedge_is_pruned() {
    let p0 = pred([0.8988540054321903, 0.9781570853881789, -0.7682199587391509], 0.053097625387480196);
    let p1 = pred([-0.8988563541142779, -0.9781557371576866, 0.7682194924300244], -0.14250781676845323);
    let p2 = pred([-0.0011054328827771191, 0.000592946834730052, -0.00018886207635456436], 0.0011527723873447039);

    let mut t = AffTree::<2>::from_aff(p0.clone());
    t.add_child_node(0, 0, AffFunc::constant(3, 10.0)).unwrap();
    let n1 = t.add_child_node(0, 1, p1.clone()).unwrap();
    t.add_child_node(n1, 0, AffFunc::constant(3, 20.0)).unwrap();
    let n2 = t.add_child_node(n1, 1, p2.clone()).unwrap();
    t.add_child_node(n2, 0, AffFunc::constant(3, 1.0)).unwrap();
    t.add_child_node(n2, 1, AffFunc::constant(3, 2.0)).unwrap();

    let x = arr1(&[1677404.9077032085, 6312337.36435353, 9999999.999059597]);

    // the input is well inside its region: normalized distance to every hyperplane on its path
    for p in [&p0, &p1, &p2] {
        let a = p.mat.row(0);
        let d = (a.dot(&x) - p.bias[0]).abs() / a.dot(&a).sqrt();
        assert!(d > 8.0e-4, "distance {d}");
    }

    let before = t.evaluate(&x).unwrap();
    assert_eq!(before[0], 1.0);

    let mut pruned = t.clone();
    pruned.infeasible_elimination();
    assert_eq!(
        Some(before),
        pruned.evaluate(&x),
        "infeasible_elimination changed the value at {:?} ({} -> {} nodes)",
        x,
        t.len(),
        pruned.len()
    );
}
