// C04 / finding 3 (debug builds, i.e. the profile `cargo test` uses)
//
// A well-formed tree from AffTree::from_poly with three predicates over R^3; all coefficients
// are between 0.03 and 2700. Predicates 1 and 2 are opposite and nearly parallel (they differ
// in the 7th digit of one coefficient), predicate 3 is a scaled, slightly shifted copy of
// predicate 1. infeasible_elimination does not complete:
//
//   panicked at src/pwl/impl_infeasible_elim.rs:383
//   "if solutions can be inherited, it should have already occurred in a previous step"
//
// The LP witness of the node below predicates 1 and 2 lies about 3e7 away from the origin (vertex
// of two nearly parallel half-spaces). phase_inh tests it against predicate 3 with the raw,
// un-normalised 1e-8 tolerance (Polytope::contains, raw distance -1.1e-5 => "not inherited"),
// mirror_points then tests the same point against the normalised rows with a matrix-matrix
// product, gets a distance >= 1e-10 and reports success in iteration 0, which the debug_assert in
// phase_one declares impossible.
use std::panic::{catch_unwind, AssertUnwindSafe};

use affinitree::linalg::affine::{AffFunc, Polytope};
use affinitree::pwl::afftree::AffTree;
use ndarray::{arr1, arr2};

fn assert_well_formed(t: &AffTree<2>, out: usize) {
    for (idx, nd) in t.tree.node_iter() {
        assert_eq!(nd.value.aff.indim(), t.in_dim(), "node {idx}");
        let n_children = nd.children.iter().flatten().count();
        assert_eq!(nd.isleaf, n_children == 0, "node {idx}");
        if nd.isleaf {
            assert_eq!(nd.value.aff.outdim(), out, "terminal {idx}");
        } else {
            assert_eq!(nd.value.aff.outdim(), 1, "decision {idx}");
        }
    }
}

#[test]
fn infeasible_elimination_completes_with_nearly_parallel_predicates() {
    let poly = Polytope::from_mats(
        arr2(&[
            [-20.046461358507866, -22.046725199347446, 16.654000254405332],
            [20.046461358507866, 22.046735910716283, -16.654000254405332],
            [-2365.3109275825764, -2601.324947023378, 1965.0295423830366],
        ]),
        arr1(&[0.0384760920519251, -281.9921429354223, 4.539849669900325]),
    );
    // x -> x inside the polytope, x -> 0 outside
    let mut t =
        AffTree::<2>::from_poly(poly, AffFunc::identity(3), Some(&AffFunc::zeros(3))).unwrap();
    assert_well_formed(&t, 3);

    let r = catch_unwind(AssertUnwindSafe(|| {
        t.infeasible_elimination();
    }));
    assert!(r.is_ok(), "infeasible_elimination panicked on a well-formed tree");
    assert_well_formed(&t, 3);
}
