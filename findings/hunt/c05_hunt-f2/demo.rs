// C05, clause 1: "every witness point stored at a node satisfies all path conditions from the
// root to that node (within the library's documented 1e-8 containment tolerance)".
//
// Well-formed 7-node trees, all weights/thresholds within [1e-6, 1e7], real LP backend, a single
// call of infeasible_elimination():
//
//        root:  x1 >= X                      (X ~ 3e6)
//          1 -> P :  w*(x1 - x2) <= b
//                 1 -> P2 : c*w*(x1 - x2) <= c*b   (same half-plane, rescaled)
//                        0 -> terminal,  1 -> terminal
//
// The LP witness of node P is a vertex (x1 = X, P tight). For the children of P2 the witness is
// not inherited (Polytope::contains rejects it by more than 1e-8), so phase_one hands it to
// mirror_points, whose own containment test (normalized rows, +1e-10 margin) is dominated by
// rounding for |x| ~ 1e6..1e7 and accepts a point that violates the path condition P2.
//
//  * debug builds (plain `cargo test`): the library's own debug assertions in phase_one fail
//    ("if solutions can be inherited, it should have already occurred in a previous step" /
//    `vec.iter().all(|point| poly.contains(point))`) and infeasible_elimination panics.
//  * with `-C debug-assertions=off` (release semantics): the point is stored as
//    NodeState::FeasibleWitness although it violates a path condition by > 1e-8 (raw), according to
//    both f64 and exact arithmetic.
//
// Float-regime finding: in normalized distance the stored witnesses are only ~1e-11 outside.
use affinitree::linalg::affine::AffFunc;
use affinitree::pwl::afftree::AffTree;
use affinitree::pwl::node::NodeState;
use ndarray::{Array1, Array2};

fn two_sum(a: f64, b: f64) -> (f64, f64) {
    let s = a + b;
    let bb = s - a;
    let e = (a - (s - bb)) + (b - bb);
    (s, e)
}

/// exact value of b - a.x, rounded once at the end
fn exact_slack(a: &[f64], x: &[f64], b: f64) -> f64 {
    let mut exp: Vec<f64> = Vec::new();
    let mut terms: Vec<f64> = vec![b];
    for (ai, xi) in a.iter().zip(x.iter()) {
        let p = ai * xi;
        let e = ai.mul_add(*xi, -p);
        terms.push(-p);
        terms.push(-e);
    }
    for t in terms {
        let mut q = t;
        let mut next = Vec::with_capacity(exp.len() + 1);
        for &e in exp.iter() {
            let (s, err) = two_sum(q, e);
            if err != 0.0 {
                next.push(err);
            }
            q = s;
        }
        next.push(q);
        exp = next;
    }
    exp.iter().sum()
}

fn pred(a: [f64; 2], b: f64) -> AffFunc {
    AffFunc::from_mats(Array2::from_shape_vec((1, 2), a.to_vec()).unwrap(), Array1::from_elem(1, b))
}

fn build(w1: f64, w2: f64, b: f64, x: f64, c: f64) -> AffTree<2> {
    let mut t = AffTree::<2>::from_aff(pred([-1.0, 0.0], -x)); // x1 >= X
    t.add_child_node(0, 0, AffFunc::constant(2, 0.0)).unwrap();
    let p = t.add_child_node(0, 1, pred([w1, -w2], b)).unwrap();
    t.add_child_node(p, 0, AffFunc::constant(2, 1.0)).unwrap();
    let p2 = t.add_child_node(p, 1, pred([w1 * c, -w2 * c], b * c)).unwrap();
    t.add_child_node(p2, 0, AffFunc::constant(2, 2.0)).unwrap();
    t.add_child_node(p2, 1, AffFunc::constant(2, 3.0)).unwrap();
    t
}

#[test]
fn stored_witness_violates_path_condition() {
    // (w1, w2, b, X, c)
    let cases = [
        (1773653.4396454347, 1773653.4396454347, -0.0223336647161529, 3667924.6785241617, 0.9856882707384023),
        (4501.6909863777955, 4501.6909863777955, -1805.0795492466139, 3153445.74800169, 3.700499905547799),
        (13898.239238825676, 13480.852232304822, -0.0005397671942691434, 1726823.4339321784, 0.8350967366700918),
        (1941.333833772908, 2380.8891447487867, 0.12209187969885552, 1488585.9567721714, 7.001829205862222),
        (94827.53912757969, 94827.53912757969, -1540.3645359467866, 1700597.1235719707, 3.4642813350398605),
    ];
    let mut failures = Vec::new();
    for (w1, w2, b, x, c) in cases {
        let tree = build(w1, w2, b, x, c);
        let res = std::panic::catch_unwind(move || {
            let mut t = tree;
            t.infeasible_elimination();
            t
        });
        let t = match res {
            Err(e) => {
                let msg = e
                    .downcast_ref::<String>()
                    .cloned()
                    .or_else(|| e.downcast_ref::<&str>().map(|s| s.to_string()))
                    .unwrap_or_default();
                failures.push(format!(
                    "case w1={w1:?} w2={w2:?} b={b:?} X={x:?} c={c:?}: infeasible_elimination panicked on a library debug assertion about the points returned by mirror_points: {msg}"
                ));
                continue;
            }
            Ok(t) => t,
        };
        for idx in t.tree.node_indices() {
            if let NodeState::FeasibleWitness(ws) = &t.tree.node_value(idx).unwrap().state {
                let path = t.tree.path_to_node(idx).unwrap();
                for w in ws {
                    for (pi, label) in &path {
                        let aff = &t.tree.node_value(*pi).unwrap().aff;
                        let sgn = if *label == 1 { 1.0 } else { -1.0 };
                        let a: Vec<f64> = aff.mat.row(0).iter().map(|v| v * sgn).collect();
                        let bb = aff.bias[0] * sgn;
                        let exact = exact_slack(&a, w.as_slice().unwrap(), bb);
                        let float = bb - a.iter().zip(w.iter()).map(|(p, q)| p * q).sum::<f64>();
                        // both the f64 evaluation (what Polytope::contains computes) and exact
                        // arithmetic put the witness outside the documented tolerance
                        if exact < -1e-8 && float < -1e-8 {
                            failures.push(format!(
                                "case w1={w1:?} w2={w2:?} b={b:?} X={x:?} c={c:?}: node {idx} stores witness {:?} violating path condition {a:?} <= {bb:?}: exact raw slack {exact:e}, f64 raw slack {float:e} (tolerance -1e-8)",
                                w.to_vec()
                            ));
                        }
                    }
                }
            }
        }
    }
    for f in &failures {
        println!("{f}");
    }
    assert!(failures.is_empty(), "{} violation(s)", failures.len());
}
