//! C06 / clause 1 and the terminal-count clause: a node whose path region is empty by far more
//! than any solver tolerance survives `infeasible_elimination` (marked feasible) when the
//! predicate that empties it has a small norm.
//!
//! Mechanism: `phase_inh` accepts a witness of the parent for the child if
//! `hyperplane.contains(witness)`, and `Polytope::contains` uses an ABSOLUTE slack of 1e-8 on the
//! UN-NORMALISED row.  For a predicate with row norm s this is a geometric slack of 1e-8 / s
//! (1e-4 for s = 1e-4).  LP witnesses are vertices, i.e. they sit exactly on earlier hyperplanes,
//! so a small-norm predicate that is parallel to an earlier one and misses the region by less
//! than 1e-8 / s inherits the witness although its half-space does not meet the region.
//!
//! Input: the 1-D network  x -> ( relu(x - 1), relu(s * (1 - t - x)) )  with s = 1e-4, t = 5e-5.
//!   neuron 0 active  <=>  x >= 1
//!   neuron 1 active  <=>  x <= 1 - t
//! The pattern (active, active) needs 1 <= x <= 1 - 5e-5: empty by 5e-5 (50 x the 1e-6 region
//! tolerance, 5000 x the 1e-8 LP / containment tolerance).  The network has exactly 3 non-empty
//! closed activation regions (all three full-dimensional), so C06 demands exactly 3 terminals.
//! All weights / biases have magnitude between 1e-4 and 1.  1-D input: the oracle is interval
//! arithmetic.
use affinitree::distill::builder::{afftree_from_layers, Layer};
use affinitree::linalg::affine::{AffFunc, Polytope};
use affinitree::linalg::polyhedron::PolytopeStatus;
use affinitree::pwl::afftree::AffTree;
use ndarray::{arr1, arr2};

const REGION_TOL: f64 = 1e-6;

/// exact closed path interval [lo, hi] of node `idx` (1-D input, predicates a*x <= b with a != 0)
fn interval(t: &AffTree<2>, idx: usize) -> (f64, f64) {
    let (mut lo, mut hi) = (f64::NEG_INFINITY, f64::INFINITY);
    for (dec, label) in t.tree.path_to_node(idx).unwrap() {
        let aff = &t.tree.node_value(dec).unwrap().aff;
        let (a, b) = (aff.mat[[0, 0]], aff.bias[0]);
        assert!(a != 0.0);
        let thr = b / a;
        // label 1: a x <= b ; label 0 (closed): a x >= b
        if (label == 1) == (a > 0.0) {
            hi = hi.min(thr);
        } else {
            lo = lo.max(thr);
        }
    }
    (lo, hi)
}

/// number of activation patterns of the one-hidden-layer 1-D network (w, b) whose closed region
/// is non-empty (up to REGION_TOL), resp. full-dimensional (wider than REGION_TOL)
fn count_regions(w: &[f64], b: &[f64]) -> (usize, usize) {
    let n = w.len();
    let (mut closed, mut full) = (0, 0);
    for pattern in 0..(1usize << n) {
        let (mut lo, mut hi) = (f64::NEG_INFINITY, f64::INFINITY);
        for i in 0..n {
            let active = (pattern >> i) & 1 == 1;
            let thr = -b[i] / w[i];
            // active: w x + b >= 0
            if active == (w[i] > 0.0) {
                lo = lo.max(thr);
            } else {
                hi = hi.min(thr);
            }
        }
        if lo <= hi + REGION_TOL {
            closed += 1;
        }
        if hi - lo > REGION_TOL {
            full += 1;
        }
    }
    (closed, full)
}

fn run(s: f64, t: f64) {
    let w = [1.0, -s];
    let b = [-1.0, s * (1.0 - t)];
    let l0 = AffFunc::from_mats(arr2(&[[w[0]], [w[1]]]), arr1(&b));
    // composes partial_ReLU(0), partial_ReLU(1) un-pruned and runs infeasible_elimination after each
    let mut dd = afftree_from_layers(1, &[Layer::Linear(l0), Layer::ReLU(0), Layer::ReLU(1)], None);
    dd.infeasible_elimination();

    // clause 1: no node below the root with an empty path region
    let root = dd.tree.get_root_idx();
    let mut bad = Vec::new();
    for (_depth, idx, _rem, polys) in dd.polyhedra_iter() {
        if idx == root {
            continue;
        }
        let (lo, hi) = interval(&dd, idx);
        if lo - hi > REGION_TOL {
            let lp = Polytope::intersection_n(1, polys.as_slice()).status();
            bad.push(format!(
                "node {idx}: path interval [{lo}, {hi}] is empty by {:e}; cached state {:?}; a fresh LP on its path polytope says {}",
                lo - hi,
                dd.tree.node_value(idx).unwrap().state,
                if matches!(lp, PolytopeStatus::Infeasible) { "Infeasible" } else { "feasible" }
            ));
        }
    }

    // terminal-count clause
    let (closed, full) = count_regions(&w, &b);
    let terminals = dd.num_terminals();
    println!("s={s:e} t={t:e}: terminals={terminals}, full-dimensional regions={full}, non-empty closed regions={closed}");

    assert!(
        bad.is_empty(),
        "s={s:e} t={t:e}: nodes with an empty path region survived infeasible_elimination:\n{}",
        bad.join("\n")
    );
    assert!(
        full <= terminals && terminals <= closed,
        "s={s:e} t={t:e}: {terminals} terminals, but only {closed} non-empty closed activation regions ({full} full-dimensional)"
    );
}

#[test]
fn small_norm_neuron_keeps_empty_region_s1e4() {
    run(1e-4, 5e-5);
}

#[test]
fn small_norm_neuron_keeps_empty_region_s1e3() {
    // gap 5e-6: still 5 x the region tolerance
    run(1e-3, 5e-6);
}

#[test]
fn control_same_geometry_unit_norm_is_pruned() {
    // identical regions, second neuron not scaled down: passes (3 terminals)
    run(1.0, 5e-5);
}
