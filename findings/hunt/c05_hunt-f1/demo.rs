// C05, clause 3: "points returned by the witness-repair heuristic lie in the polytope they were
// asked for".
//
// AffTree::mirror_points decides containment with *normalized* rows and a +1e-10 margin, while the
// documented containment test (Polytope::contains) uses the raw rows with a 1e-8 tolerance. For
// rows with a large norm and start points with large coordinates (all magnitudes <= 1e7) the
// rounding error of the normalized test (~1e-16 * |x|) exceeds its 1e-10 margin, so mirror_points
// returns points that are outside the polytope by much more than 1e-8 in the raw measure, both
// according to Polytope::contains and according to exact (error-free) arithmetic.
//
// Float-regime finding: in normalized distance the returned points are only ~1e-11 outside.
use affinitree::linalg::affine::Polytope;
use affinitree::pwl::afftree::AffTree;
use ndarray::{Array1, Array2};

fn two_sum(a: f64, b: f64) -> (f64, f64) {
    let s = a + b;
    let bb = s - a;
    let e = (a - (s - bb)) + (b - bb);
    (s, e)
}

/// exact value of b - a.x, rounded once at the end (Shewchuk expansion arithmetic, products split
/// error-free with fma)
fn exact_slack(a: &[f64], x: &[f64], b: f64) -> f64 {
    let mut exp: Vec<f64> = Vec::new();
    let mut terms: Vec<f64> = vec![b];
    for (ai, xi) in a.iter().zip(x.iter()) {
        let p = ai * xi;
        let e = ai.mul_add(*xi, -p);
        terms.push(-p);
        terms.push(-e);
    }
    for t in terms {
        let mut q = t;
        let mut next = Vec::with_capacity(exp.len() + 1);
        for &e in exp.iter() {
            let (s, err) = two_sum(q, e);
            if err != 0.0 {
                next.push(err);
            }
            q = s;
        }
        next.push(q);
        exp = next;
    }
    exp.iter().sum()
}

#[test]
fn mirror_points_returns_points_outside_the_polytope() {
    // (row, bias, start point): one half-space a.x <= b in R^2, start point a few ulps from the
    // boundary (as a vertex witness returned by an LP solver typically is)
    let cases: Vec<([f64; 2], f64, [f64; 2])> = vec![
        ([367263.96439632383, -367263.96439632383], -582606.3213991964, [7057343.238985033, 7057344.825327222]),
        ([7778804.387556591, -7778804.387556591], -1.0964593265187645e-6, [3458137.7764782296, 3458137.7764782296]),
        ([2912462.925440133, -2912462.925440133], -2540535.5589971547, [9536938.356525734, 9536939.228823725]),
        ([3074.541418221472, -3690.8577589852885], 5917078.011139895, [5249571.85565456, 4371371.121211732]),
        ([201482.58695159934, -207267.46792112011], 379.0451091341803, [3753673.833398053, 3648907.962895297]),
    ];
    let mut failures = Vec::new();
    for (a, b, start) in cases {
        let poly = Polytope::from_mats(
            Array2::from_shape_vec((1, 2), a.to_vec()).unwrap(),
            Array1::from_elem(1, b),
        );
        let pts = Array2::from_shape_vec((2, 1), start.to_vec()).unwrap();
        let (res, iters) = AffTree::<2>::mirror_points(&poly, &pts, 8).expect("heuristic found a point");
        for col in res.columns() {
            let x = col.to_owned();
            let exact = exact_slack(&a, x.as_slice().unwrap(), b);
            let lib = poly.contains(&x);
            if !lib || exact < -1e-8 {
                failures.push(format!(
                    "poly {a:?} <= {b:?}, start {start:?}: mirror_points returned {:?} after {iters} iteration(s); Polytope::contains={lib}, f64 raw distance {:e}, exact raw distance {exact:e} (tolerance -1e-8)",
                    x.to_vec(),
                    poly.distance_raw(&x)[0]
                ));
            }
        }
    }
    for f in &failures {
        println!("{f}");
    }
    assert!(failures.is_empty(), "{} point(s) returned by mirror_points are not in the polytope", failures.len());
}
