// C04 / finding 1
//
// A well-formed tree produced by a library constructor (AffTree::from_poly, six predicates over
// R^3 with coefficients between 8e-5 and 1e4) on which the next dimension-compatible operation
// does not complete: infeasible_elimination, compose::<PRUNE=true> and tree + tree panic inside
// the feasibility check of a path
// (`called Result::unwrap() on an Err value: SingularMatrix`, minilp solver.rs:1301, reached from
// Polytope::status via AffTree::phase_two / AffTree::is_edge_feasible).
//
// The tree is checked to be well-formed right before the failing call, so this is a failure of the
// last clause of C04 ("any further dimension-compatible operation completes without panicking").
use std::panic::{catch_unwind, AssertUnwindSafe};

use affinitree::linalg::affine::{AffFunc, Polytope};
use affinitree::pwl::afftree::AffTree;
use ndarray::{arr1, arr2, s};

fn rows() -> (ndarray::Array2<f64>, ndarray::Array1<f64>) {
    (
        arr2(&[
            [8e-5, 40.0, 0.008],
            [4.0, -400.0, -10.0],
            [0.2, -400.0, -1.0],
            [0.0, -2.0, -200.0],
            [0.0, 0.05, -3.0],
            [8e-5, 0.0, 10000.0],
        ]),
        arr1(&[-2000.0, -100.0, 0.3, 2.0, -4.0, 0.0]),
    )
}

/// every node function has the tree's input dimension, terminals share one output dimension,
/// decisions have one row, leaf flag <=> no children, parent links are consistent
fn assert_well_formed(t: &AffTree<2>, out: usize) {
    for (idx, nd) in t.tree.node_iter() {
        assert_eq!(nd.value.aff.indim(), t.in_dim(), "node {idx}");
        let n_children = nd.children.iter().flatten().count();
        assert_eq!(nd.isleaf, n_children == 0, "node {idx}");
        if nd.isleaf {
            assert_eq!(nd.value.aff.outdim(), out, "terminal {idx}");
        } else {
            assert_eq!(nd.value.aff.outdim(), 1, "decision {idx}");
        }
        for c in nd.children.iter().flatten() {
            assert_eq!(t.tree.tree_node(*c).unwrap().parent, Some(idx));
        }
    }
}

#[test]
fn infeasible_elimination_completes() {
    let (a, b) = rows();
    // x -> x inside the polytope, x -> 0 outside
    let mut t = AffTree::<2>::from_poly(
        Polytope::from_mats(a, b),
        AffFunc::identity(3),
        Some(&AffFunc::zeros(3)),
    )
    .unwrap();
    assert_well_formed(&t, 3);

    let r = catch_unwind(AssertUnwindSafe(|| {
        t.infeasible_elimination();
    }));
    assert!(r.is_ok(), "infeasible_elimination panicked on a well-formed tree");
    assert_well_formed(&t, 3);
}

#[test]
fn pruned_composition_completes() {
    let (a, b) = rows();
    let first = Polytope::from_mats(a.slice(s![0..3, ..]).to_owned(), b.slice(s![0..3]).to_owned());
    let second = Polytope::from_mats(a.slice(s![3..6, ..]).to_owned(), b.slice(s![3..6]).to_owned());

    // precondition tree: identity on R^3 (both inside and outside of `first`)
    let mut t =
        AffTree::<2>::from_poly(first, AffFunc::identity(3), Some(&AffFunc::identity(3))).unwrap();
    let other =
        AffTree::<2>::from_poly(second, AffFunc::identity(3), Some(&AffFunc::zeros(3))).unwrap();
    assert_well_formed(&t, 3);
    assert_well_formed(&other, 3);

    // unpruned composition of the same operands is fine
    let mut u = t.clone();
    u.compose::<false, false>(&other);
    assert_well_formed(&u, 3);

    let r = catch_unwind(AssertUnwindSafe(|| {
        t.compose::<true, false>(&other);
    }));
    assert!(r.is_ok(), "compose::<true, false> panicked on well-formed, dimension-compatible trees");
    assert_well_formed(&t, 3);
}

#[test]
fn tree_addition_completes() {
    let (a, b) = rows();
    let first = Polytope::from_mats(a.slice(s![0..3, ..]).to_owned(), b.slice(s![0..3]).to_owned());
    let second = Polytope::from_mats(a.slice(s![3..6, ..]).to_owned(), b.slice(s![3..6]).to_owned());
    let t =
        AffTree::<2>::from_poly(first, AffFunc::identity(3), Some(&AffFunc::identity(3))).unwrap();
    let other =
        AffTree::<2>::from_poly(second, AffFunc::identity(3), Some(&AffFunc::zeros(3))).unwrap();
    assert_well_formed(&t, 3);
    assert_well_formed(&other, 3);

    let r = catch_unwind(AssertUnwindSafe(|| t + other));
    assert!(r.is_ok(), "tree + tree panicked on well-formed, dimension-compatible trees");
    assert_well_formed(&r.unwrap(), 3);
}
