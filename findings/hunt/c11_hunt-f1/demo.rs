#![cfg(affinitree_verif)]
// C11 / finding 1
//
// An LP answer "Optimal(w)" with w slightly OUTSIDE the polytope (1e-3 beyond one face) makes
// `infeasible_elimination` panic (debug build) -- or cache a witness that fails the library's own
// `Polytope::contains` (build without debug assertions).
//
// Mechanism: phase_two repairs the bad witness with `mirror_points` and re-checks it with
// `Polytope::contains` (fine).  The repaired witness is cached at node N.  For N's children,
// phase_one calls `mirror_points` again, but this time its result is only guarded by
//     debug_assert!(iter > 0, ...)                                   and
//     debug_assert!(vec.iter().all(|point| poly.contains(point)))
// `mirror_points` accepts a point on the row-NORMALISED system (dist - 1e-10 >= 0) while `contains`
// tests the RAW rows (b - a.x >= -1e-8).  For coordinates ~1e6..1e7 the two tests disagree by
// rounding, so the assertion fires.  All magnitudes are within 1e-6..1e7.
//
// Run:
// RUSTFLAGS="--cfg affinitree_verif" CARGO_NET_OFFLINE=true cargo test --offline \
//     --target-dir /tmp/wt_c11/target_verif --test c11_f1_demo

use std::cell::RefCell;
use std::panic::{catch_unwind, AssertUnwindSafe};
use std::rc::Rc;

use affinitree::aff;
use affinitree::linalg::affine::Polytope;
use affinitree::linalg::polyhedron::PolytopeStatus;
use affinitree::pwl::afftree::AffTree;
use affinitree::pwl::node::NodeState;
use affinitree::verif_hooks::{reset_lp_calls, set_lp_interceptor};
use ndarray::{arr1, Array1};

///            root: x1 <= 5e6
///           /0              \1
///     T(0)            N: 300 x0 + 400 x1 <= 1e6
///                      /0            \1
///                   T(1)            T(2)
fn build() -> AffTree<2> {
    let mut t = AffTree::<2>::from_aff(aff!([[0., 1.]] + [5.0e6]));
    t.add_child_node(0, 0, aff!([[0., 0.]] + [0.])).unwrap(); // idx 1
    let n = t.add_child_node(0, 1, aff!([[300., 400.]] + [1.0e6])).unwrap(); // idx 2
    t.add_child_node(n, 0, aff!([[0., 0.]] + [1.])).unwrap(); // idx 3
    t.add_child_node(n, 1, aff!([[0., 0.]] + [2.])).unwrap(); // idx 4
    t
}

fn path_polytope(t: &AffTree<2>, idx: usize) -> Polytope {
    let mut polys = Vec::new();
    for (n, label) in t.tree.path_to_node(idx).unwrap() {
        let aff = &t.tree.node_value(n).unwrap().aff;
        let f = if label == 1 { 1.0 } else { -1.0 };
        polys.push(Polytope::from_mats(&aff.mat * f, &aff.bias * f));
    }
    Polytope::intersection_n(t.in_dim(), &polys)
}

#[test]
fn slightly_outside_witness_breaks_phase_one() {
    let probes: Vec<Array1<f64>> = vec![
        arr1(&[0., 0.]),
        arr1(&[1.0e4, 0.]),
        arr1(&[0., 6.0e6]),
        arr1(&[-7.0e6, 4.0e6]),
        arr1(&[-6.0e6, 4.9e6]),
    ];
    let orig = build();

    // fault-free reference run: fine
    let mut ff = orig.clone();
    ff.infeasible_elimination();
    for p in &probes {
        assert_eq!(orig.evaluate(p), ff.evaluate(p));
    }

    // LP call #1 is the feasibility check of node N (polytope { x1 <= 5e6 }).
    // The faulty backend answers "Optimal" with a point that is 1e-3 outside of that polytope.
    let bad = arr1(&[-6663333.333200004, 5000000.001]);
    let seen = Rc::new(RefCell::new(Vec::new()));
    let seen2 = seen.clone();
    let bad2 = bad.clone();
    reset_lp_calls();
    set_lp_interceptor(Some(Box::new(move |idx, poly, _obj, real| {
        if idx == 1 {
            seen2.borrow_mut().push((poly.clone(), poly.contains(&bad2)));
            PolytopeStatus::Optimal(bad2.clone())
        } else {
            real()
        }
    })));

    let mut t = orig.clone();
    let res = catch_unwind(AssertUnwindSafe(|| {
        t.infeasible_elimination();
    }));
    set_lp_interceptor(None);

    // the injected answer really was an out-of-polytope "optimal" point for a one-row polytope
    {
        let seen = seen.borrow();
        assert_eq!(seen.len(), 1);
        assert_eq!(seen[0].0.n_constraints(), 1);
        assert!(!seen[0].1, "injected point should lie outside the polytope of LP call #1");
    }

    // clause "the operation still completes without panicking"
    if let Err(e) = res {
        let msg = e
            .downcast_ref::<String>()
            .cloned()
            .or_else(|| e.downcast_ref::<&str>().map(|s| s.to_string()))
            .unwrap_or_default();
        panic!("C11 violated: infeasible_elimination panicked after an out-of-polytope LP witness: {msg}");
    }

    // clause "no unsound witness is cached" (reached when debug assertions are compiled out):
    // every cached witness must at least pass the library's own containment test
    for idx in t.tree.node_indices().collect::<Vec<_>>() {
        if let NodeState::FeasibleWitness(ws) = &t.tree.node_value(idx).unwrap().state {
            let poly = path_polytope(&t, idx);
            for w in ws {
                assert!(
                    poly.contains(w),
                    "C11 violated: node {idx} caches witness {w} that fails Polytope::contains (raw distances {})",
                    poly.distance_raw(w)
                );
            }
        }
    }
    for p in &probes {
        assert_eq!(orig.evaluate(p), t.evaluate(p));
    }
}

/// Same root cause, other assertion: a FAR-OFF "optimal" point (1e8 away from the polytope
/// { x1 <= 5 }) is repaired by `mirror_points` and cached at N; for a child of N the inherited
/// witness is rejected by `Polytope::contains` (phase_inh) but accepted by `mirror_points` in its
/// very first iteration (phase_one), which trips `debug_assert!(iter > 0, ...)`.
#[test]
fn far_off_witness_breaks_phase_one() {
    let mut t = AffTree::<2>::from_aff(aff!([[0., 1.]] + [5.]));
    t.add_child_node(0, 0, aff!([[0., 0.]] + [0.])).unwrap();
    let n = t.add_child_node(0, 1, aff!([[300., 400.]] + [100.])).unwrap();
    t.add_child_node(n, 0, aff!([[0., 0.]] + [1.])).unwrap();
    t.add_child_node(n, 1, aff!([[0., 0.]] + [2.])).unwrap();
    let orig = t.clone();

    let bad = arr1(&[13333326.333333354, 1.0e8]);
    let bad2 = bad.clone();
    reset_lp_calls();
    set_lp_interceptor(Some(Box::new(move |idx, poly, _obj, real| {
        if idx == 1 {
            assert!(!poly.contains(&bad2));
            PolytopeStatus::Optimal(bad2.clone())
        } else {
            real()
        }
    })));
    let res = catch_unwind(AssertUnwindSafe(|| {
        t.infeasible_elimination();
    }));
    set_lp_interceptor(None);
    if let Err(e) = res {
        let msg = e
            .downcast_ref::<String>()
            .cloned()
            .or_else(|| e.downcast_ref::<&str>().map(|s| s.to_string()))
            .unwrap_or_default();
        panic!("C11 violated: infeasible_elimination panicked after a far-off LP witness: {msg}");
    }
    for idx in t.tree.node_indices().collect::<Vec<_>>() {
        if let NodeState::FeasibleWitness(ws) = &t.tree.node_value(idx).unwrap().state {
            let poly = path_polytope(&t, idx);
            for w in ws {
                assert!(
                    poly.contains(w),
                    "C11 violated: node {idx} caches witness {w} that fails Polytope::contains (raw distances {})",
                    poly.distance_raw(w)
                );
            }
        }
    }
    for p in [arr1(&[0., 0.]), arr1(&[1., 1.]), arr1(&[0., 6.]), arr1(&[-5., 4.])] {
        assert_eq!(orig.evaluate(&p), t.evaluate(&p));
    }
}
