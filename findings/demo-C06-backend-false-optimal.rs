use affinitree::distill::schema::{partial_hard_tanh, partial_ReLU};
use affinitree::linalg::affine::{AffFunc, Polytope};
use affinitree::pwl::afftree::AffTree;
use ndarray::{arr1, arr2};

#[test]
fn t() {
    let m = AffFunc::from_mats(arr2(&[[-0.5, -1.0, 1.5], [-2.0, -2.0, 1.0], [-2.0, -1.5, -0.5]]), arr1(&[0., 0., 0.]));
    let mut dd = AffTree::<2>::from_aff(m);
    let c = dd.clone(); dd.compose::<false, false>(&c);
    let c = dd.clone(); dd.compose::<false, false>(&c);
    dd.apply_func(&AffFunc::from_mats(arr2(&[[0.5, 1.5, 0.0], [0.5, 0.0, -1.5], [-1.5, -1.5, 2.0]]), arr1(&[0., 0., 0.])));
    dd.apply_func(&AffFunc::from_mats(arr2(&[[0.0, -2.0, 0.0], [1.5, 0.0, 1.5], [0.5, 0.0, 1.0]]), arr1(&[0., 0., 0.])));
    dd.compose::<false, false>(&partial_ReLU(3, 1));
    dd.compose::<false, false>(&partial_hard_tanh(3, 0, 0.0, 1.0));
    let c = dd.clone(); dd.compose::<false, false>(&c);
    println!("nodes before {}", dd.len());
    let counter = dd.infeasible_elimination();
    println!("counter {:?}", counter);
    for (idx, n) in dd.tree.node_iter() {
        println!("node {idx} leaf={} children {:?} parent {:?} state {:?}", n.isleaf, n.children, n.parent, match &n.value.state { affinitree::pwl::node::NodeState::FeasibleWitness(_) => "W".to_string(), s => format!("{:?}", s) });
    }
    // path polytope of node 44
    let mut path = vec![];
    let mut cur = 44usize;
    while let Ok(e) = dd.tree.parent(cur) { path.push((e.source_idx, e.label)); cur = e.source_idx; }
    path.reverse();
    println!("path {:?}", path);
    let mut polys = vec![];
    for (src, label) in &path {
        let aff = &dd.tree.node_value(*src).unwrap().aff;
        let f = if *label == 1 { 1.0 } else { -1.0 };
        polys.push(Polytope::from_mats(&aff.mat * f, &aff.bias * f));
    }
    let poly = Polytope::intersection_n(3, polys.as_slice());
    println!("poly {:?}", poly);
    println!("status {:?}", poly.status());
    let pn = poly.clone().normalize();
    println!("norm {:?}", pn);
    if let affinitree::linalg::polyhedron::PolytopeStatus::Optimal(x) = poly.status() {
        println!("dist raw {:?}", poly.distance_raw(&x));
        println!("dist norm {:?}", pn.distance_raw(&x));
        println!("contains {}", poly.contains(&x));
        println!("mirror {:?}", AffTree::<2>::mirror_points(&poly, &x.clone().insert_axis(ndarray::Axis(1)), 20));
    }
}
